//! Indexable title / query domains shared by the sweeps (DESIGN.md §5).

use crate::util::*;
use std::collections::BTreeSet;

#[derive(Clone)]
pub enum Titles {
    /// all strings of length lo..=hi over an alphabet
    Chars { fam: Vec<char>, lo: u32, hi: u32 },
    /// empty title, then all sequences of 1..=maxw lexicon words, each gap ' ' or '-'
    Words { lex: Vec<String>, maxw: u32 },
    List(Vec<String>),
}

impl Titles {
    pub fn len(&self) -> u64 {
        match self {
            Titles::Chars { fam, lo, hi } => seqs_len(fam.len() as u64, *lo, *hi),
            Titles::Words { lex, maxw } => 1 + (1..=*maxw).map(|n| (lex.len() as u64).pow(n) * 2u64.pow(n - 1)).sum::<u64>(),
            Titles::List(v) => v.len() as u64,
        }
    }
    pub fn get(&self, mut idx: u64) -> String {
        match self {
            Titles::Chars { fam, lo, hi } => string_at(fam, *lo, *hi, idx),
            Titles::Words { lex, maxw } => {
                if idx == 0 {
                    return String::new();
                }
                idx -= 1;
                let k = lex.len() as u64;
                for n in 1..=*maxw {
                    let c = k.pow(n) * 2u64.pow(n - 1);
                    if idx < c {
                        let gaps = idx % 2u64.pow(n - 1);
                        let words = seq_at(k, n, n, idx / 2u64.pow(n - 1));
                        let mut s = String::new();
                        for (i, w) in words.iter().enumerate() {
                            if i > 0 {
                                s.push(if (gaps >> (i - 1)) & 1 == 0 { ' ' } else { '-' });
                            }
                            s.push_str(&lex[*w]);
                        }
                        return s;
                    }
                    idx -= c;
                }
                panic!("Titles::get out of range")
            }
            Titles::List(v) => v[idx as usize].clone(),
        }
    }
}

pub fn all_strings(fam: &[char], lo: u32, hi: u32) -> Vec<String> {
    (0..seqs_len(fam.len() as u64, lo, hi)).map(|i| string_at(fam, lo, hi, i)).collect()
}

/// Word-level queries: sequences of 1..=maxw lexicon words (gaps ' ' or '-') where the last word appears
/// with every prefix (unfinished) and once finished (`word␣`).
pub fn word_queries(lex: &[String], maxw: u32) -> Vec<String> {
    let mut out = BTreeSet::new();
    let t = Titles::Words { lex: lex.to_vec(), maxw: maxw.saturating_sub(1) };
    let heads: Vec<String> = if maxw >= 2 { (0..t.len()).map(|i| t.get(i)).collect() } else { vec![String::new()] };
    for h in &heads {
        let seps: &[&str] = if h.is_empty() { &[""] } else { &[" ", "-"] };
        for sep in seps {
            for w in lex {
                let cs: Vec<char> = w.chars().collect();
                for k in 1..=cs.len() {
                    out.insert(format!("{}{}{}", h, sep, cs[..k].iter().collect::<String>()));
                }
                out.insert(format!("{}{}{} ", h, sep, w));
            }
        }
    }
    out.into_iter().collect()
}

pub fn lex_strings(l: L) -> Vec<String> {
    lexicon(l).into_iter().map(String::from).collect()
}

// ---------------------------------------------------------------------------------------------
// corpora (frozen copies under /verif/data)
// ---------------------------------------------------------------------------------------------

pub fn corpus_en_words() -> Vec<String> {
    let text = std::fs::read_to_string("/verif/data/top_1000_words_en.csv").expect("/verif/data/top_1000_words_en.csv");
    let mut seen = BTreeSet::new();
    let mut out = Vec::new();
    for line in text.lines() {
        let w = line.trim();
        if !w.is_empty() && seen.insert(w.to_string()) {
            out.push(w.to_string());
        }
    }
    out
}

pub fn corpus_ecommerce_titles() -> Vec<String> {
    let text = std::fs::read_to_string("/verif/data/e_commerce_titles.txt").expect("/verif/data/e_commerce_titles.txt");
    text.lines().map(|s| s.to_string()).collect()
}

/// distinct whitespace-separated tokens of the e-commerce titles
pub fn corpus_ecommerce_tokens() -> Vec<String> {
    let mut seen = BTreeSet::new();
    let mut out = Vec::new();
    for t in corpus_ecommerce_titles() {
        for w in t.split_whitespace() {
            if seen.insert(w.to_string()) {
                out.push(w.to_string());
            }
        }
    }
    out
}

// ---------------------------------------------------------------------------------------------
// store contexts for the "record is returned" properties (|store| <= limit)
// ---------------------------------------------------------------------------------------------

pub const TARGET_ID: usize = 77;

/// Stores containing the target record `title` (id TARGET_ID) with |store| <= limit.
pub fn contexts(l: L, title: &str, n: usize) -> Vec<(Vec<Rec>, usize)> {
    let unrelated = if l.is_cyrillic() { "щъ" } else { "zq" };
    let mut v = vec![(vec![rec(TARGET_ID, title, 5)], 10usize)];
    if n >= 2 {
        // an identical competitor with the highest possible rating first; limit exactly |store|
        v.push((vec![rec(1, title, (1 << 31) - 1), rec(TARGET_ID, title, 0)], 2));
    }
    if n >= 4 {
        // a crowd: 24 better-rated near-copies around the target, limit exactly |store| = 25
        let mut recs: Vec<Rec> = Vec::new();
        for i in 0..24 {
            if i == 11 {
                recs.push(rec(TARGET_ID, title, 1));
            }
            let t = match i % 3 {
                0 => format!("{} {}", title, unrelated),
                1 => format!("{} {}", unrelated, title),
                _ => title.to_string(),
            };
            recs.push(rec(1000 + i, &t, 100 + i));
        }
        v.push((recs, 25));
    }
    if n >= 5 {
        // a big crowd: 119 better-rated records that all share the target's first word, limit exactly |store| = 120
        let first = title.split(|c: char| c == ' ' || c == '-').next().unwrap_or(title).to_string();
        // ... with the target added first, in the middle and last (which tied candidates survive a cut depends on position)
        for pos in [0usize, 60, 119] {
            let mut recs: Vec<Rec> = Vec::new();
            for i in 0..=119 {
                if i == pos {
                    recs.push(rec(TARGET_ID, title, 1));
                }
                if i < 119 {
                    recs.push(rec(1000 + i, &match i % 3 { 0 => format!("{} {} {}", first, unrelated, i), 1 => format!("{}{}", first, i), _ => format!("{} {}", i, first) }, 100 + i));
                }
            }
            v.push((recs, 120));
        }
    }
    if n >= 3 {
        // two word-less records first (they occupy positions but have no grams), then the target between distractors
        v.push((vec![rec(3, "---", 8), rec(4, "", 6), rec(1, &format!("{} {}", title, unrelated), 9), rec(2, unrelated, 7), rec(TARGET_ID, title, 0)], 5));
    }
    v
}

/// Words around the initial buffer capacities (20 / 21 / 34 / 35 letters), alone and next to short words.
pub fn long_word_titles(l: L) -> Vec<String> {
    let abc: Vec<char> = if l.is_cyrillic() { "абвгдежзиклмнопрстуфхцчшщэюя".chars().collect() } else { "abcdefghijklmnopqrstuvwxyz".chars().collect() };
    let w = |n: usize, off: usize| -> String { abc.iter().cycle().skip(off).take(n).collect() };
    let mut out = Vec::new();
    for n in [19usize, 20, 21, 22, 33, 34, 35, 36] {
        out.push(w(n, 0));
        out.push(format!("{} {}", w(5, 3), w(n, 0)));
        out.push(format!("{}-{}", w(n, 0), w(4, 7)));
        out.push(format!("{} {}", w(n / 2, 0), w(n - n / 2, n / 2)));
    }
    out
}

/// One word per row of the frozen compose / reduce tables of *every* language (a language without the row must
/// pass the character through untouched and still find it): the row's character(s) - the decomposed pair, the
/// precomposed character, the reducible character, each in the case the table lists it - at each of the four
/// positions of a four-letter word of the language's script.
pub fn inventory_word_titles(l: L) -> Vec<String> {
    let s = sym(l);
    let base = [s.c, s.v, s.c2, s.c];
    let mut xs: Vec<String> = Vec::new();
    for tl in [L::De, L::En, L::Es, L::Fr, L::Pt, L::Ru] {
        for (from, to) in crate::refs::frozen_compose(tl) {
            xs.push((*from).to_string());
            xs.push((*to).to_string());
        }
        for (from, _) in crate::refs::frozen_reduce(tl) {
            xs.push((*from).to_string());
        }
    }
    xs.sort();
    xs.dedup();
    let mut out = Vec::with_capacity(xs.len() * 4);
    for x in &xs {
        for pos in 0..4 {
            let mut w = String::new();
            for (i, b) in base.iter().enumerate() {
                if i == pos {
                    w.push_str(x);
                } else {
                    w.push(*b);
                }
            }
            out.push(w);
        }
    }
    out
}

/// Very long texts: k distinct corpus words joined by single spaces (k words ~ 4-5k characters for k = 1000).
pub fn long_text(k: usize, offset: usize) -> String {
    let words = corpus_en_words();
    let mut out: Vec<&str> = Vec::with_capacity(k);
    let mut i = offset;
    while out.len() < k {
        let w = &words[i % words.len()];
        if w.chars().count() >= 3 {
            out.push(w);
        }
        i += 1;
    }
    out.join(" ")
}

/// Function words that are prefixes of other function words of the same language (of/off, un/una, на/над ...),
/// from the frozen list, plus two content words: titles over these exercise the deferral of function-word
/// matches together with joined-word attempts on the following words.
pub fn fw_prefix_lexicon(l: L) -> Vec<String> {
    let fw: Vec<&str> = crate::refs::frozen_function_words(l).iter().copied().filter(|w| w.chars().all(|c| c.is_alphabetic())).collect();
    let mut out: Vec<String> = Vec::new();
    for a in &fw {
        let la = a.chars().count();
        if la < 2 || la > 3 {
            continue;
        }
        for b in &fw {
            if b.chars().count() == la + 1 && b.starts_with(a) && !out.contains(&a.to_string()) && out.len() < 4 {
                out.push(a.to_string());
                out.push(b.to_string());
            }
        }
    }
    let lex = lexicon(l);
    // a function word that is nobody's prefix, and two content words
    if let Some(f) = fw.iter().find(|w| w.chars().count() == 3 && !out.contains(&w.to_string())) {
        out.push(f.to_string());
    }
    out.push(lex[4].to_string());
    out.push(lex[3].to_string());
    out.truncate(7);
    out
}

thread_local! {
    static FULL_STORES: std::cell::RefCell<std::collections::HashMap<(u8, usize), St>> = std::cell::RefCell::new(std::collections::HashMap::new());
}

/// The whole e-commerce corpus (3 285 records, id = position, distinct ratings) as ONE store per (language, limit),
/// built once per worker thread and then only searched.
pub fn with_full_store<T>(l: L, limit: usize, f: impl FnOnce(&mut St, &[String]) -> T) -> Option<T> {
    thread_local! { static TITLES: Vec<String> = corpus_ecommerce_titles(); }
    TITLES.with(|titles| {
        FULL_STORES.with(|cell| {
            let mut map = cell.borrow_mut();
            if !map.contains_key(&(l as u8, limit)) {
                let recs: Vec<Rec> = titles.iter().enumerate().map(|(i, t)| rec(i, t, (i * 7919) % 3301 + i * 3307)).collect();
                match St::with(l, &recs, Some(limit), None) {
                    Ok(st) => {
                        map.insert((l as u8, limit), st);
                    }
                    Err(_) => return None,
                }
            }
            let st = map.get_mut(&(l as u8, limit)).unwrap();
            Some(f(st, titles))
        })
    })
}
