//! Shared plumbing: languages, stores on the real code, panic capture, indexable domains.

use lucid_suggest_core::lang::lang_basic;
use lucid_suggest_core::{
    lang_english, lang_french, lang_german, lang_portuguese, lang_russian, lang_spanish, tokenize_query, Lang,
    Record, Store, TextOwn,
};
use std::cell::RefCell;
use std::panic::{catch_unwind, AssertUnwindSafe};

// ------------------------------------------------------------------------------------------------
// Languages
// ------------------------------------------------------------------------------------------------

#[derive(Clone, Copy, PartialEq, Eq, Debug, PartialOrd, Ord, Hash)]
pub enum L {
    None = 0,
    De = 1,
    En = 2,
    Es = 3,
    Fr = 4,
    Pt = 5,
    Ru = 6,
    /// `lang_basic`: Latin character classes, no stemmer, no maps.  Only used by direct-drive checks (C16).
    Basic = 7,
}

pub const LANGS: [L; 7] = [L::None, L::De, L::En, L::Es, L::Fr, L::Pt, L::Ru];

impl L {
    pub fn tag(self) -> &'static str {
        ["none", "de", "en", "es", "fr", "pt", "ru", "basic"][self as usize]
    }
    pub fn ctor(self) -> &'static str {
        [
            "Lang::new()",
            "lang_german()",
            "lang_english()",
            "lang_spanish()",
            "lang_french()",
            "lang_portuguese()",
            "lang_russian()",
            "lucid_suggest_core::lang::lang_basic()",
        ][self as usize]
    }
    pub fn make(self) -> Lang {
        match self {
            L::None => Lang::new(),
            L::De => lang_german(),
            L::En => lang_english(),
            L::Es => lang_spanish(),
            L::Fr => lang_french(),
            L::Pt => lang_portuguese(),
            L::Ru => lang_russian(),
            L::Basic => lang_basic(),
        }
    }
    pub fn from_tag(t: &str) -> Option<L> {
        [L::None, L::De, L::En, L::Es, L::Fr, L::Pt, L::Ru, L::Basic].iter().copied().find(|l| l.tag() == t)
    }
    pub fn is_cyrillic(self) -> bool {
        self == L::Ru
    }
}

thread_local! {
    static POOL: RefCell<Vec<Vec<Lang>>> = RefCell::new((0..8).map(|_| Vec::new()).collect());
}

thread_local! {
    /// while set, every store gets a newly constructed language object and none is returned to the pool: state kept
    /// inside a `Lang` (the stemmer's scratch buffer) then starts from scratch for every store, as the statements about
    /// "a freshly built store" mean it
    static FRESH_LANGS: std::cell::Cell<bool> = std::cell::Cell::new(false);
}
/// Run `f` with language pooling switched off on this thread.
pub fn with_fresh_langs<T>(f: impl FnOnce() -> T) -> T {
    let before = FRESH_LANGS.with(|c| c.replace(true));
    let r = catch_unwind(AssertUnwindSafe(f));
    FRESH_LANGS.with(|c| c.set(before));
    match r {
        Ok(v) => v,
        Err(e) => std::panic::resume_unwind(e),
    }
}
pub fn take_lang(l: L) -> Lang {
    if FRESH_LANGS.with(|c| c.get()) {
        return l.make();
    }
    POOL.with(|p| p.borrow_mut()[l as usize].pop()).unwrap_or_else(|| l.make())
}
pub fn give_lang(l: L, lang: Lang) {
    if FRESH_LANGS.with(|c| c.get()) {
        return;
    }
    POOL.with(|p| p.borrow_mut()[l as usize].push(lang));
}
/// Borrow a pooled language object for pure tokeniser / normaliser calls.
pub fn with_lang<T>(l: L, f: impl FnOnce(&Lang) -> T) -> T {
    let lang = take_lang(l);
    let r = catch_unwind(AssertUnwindSafe(|| f(&lang)));
    match r {
        Ok(v) => {
            give_lang(l, lang);
            v
        }
        Err(e) => std::panic::resume_unwind(e),
    }
}

// ------------------------------------------------------------------------------------------------
// Panic capture
// ------------------------------------------------------------------------------------------------

#[derive(Clone, Debug, PartialEq, Eq)]
pub struct PanicInfo {
    pub loc: String,
    pub msg: String,
}

impl PanicInfo {
    pub fn sig(&self) -> String {
        // file:line without the column, message without numbers: stable across inputs
        let loc = self.loc.rsplitn(2, ':').last().unwrap_or(&self.loc).to_string();
        let loc = loc.trim_start_matches("/repo/rust/core/").to_string();
        let msg: String = self.msg.chars().map(|c| if c.is_ascii_digit() { '#' } else { c }).take(60).collect();
        format!("panic@{}:{}", loc, msg)
    }
    pub fn text(&self) -> String {
        format!("{} at {}", self.msg, self.loc)
    }
}

thread_local! {
    static LAST_PANIC: RefCell<Option<PanicInfo>> = RefCell::new(None);
}

pub fn install_panic_hook() {
    std::panic::set_hook(Box::new(|info| {
        let loc = info.location().map(|l| format!("{}:{}:{}", l.file(), l.line(), l.column())).unwrap_or_default();
        let msg = if let Some(s) = info.payload().downcast_ref::<&str>() {
            s.to_string()
        } else if let Some(s) = info.payload().downcast_ref::<String>() {
            s.clone()
        } else {
            "<non-string panic payload>".to_string()
        };
        LAST_PANIC.with(|c| *c.borrow_mut() = Some(PanicInfo { loc, msg }));
    }));
}

/// Run `f`, turning an unwinding panic into a value.  Non-unwinding aborts kill the worker and are
/// handled by the supervisor.
pub fn guard<T>(f: impl FnOnce() -> T) -> Result<T, PanicInfo> {
    match catch_unwind(AssertUnwindSafe(f)) {
        Ok(v) => Ok(v),
        Err(_) => Err(LAST_PANIC
            .with(|c| c.borrow_mut().take())
            .unwrap_or(PanicInfo { loc: "?".into(), msg: "?".into() })),
    }
}

// ------------------------------------------------------------------------------------------------
// Real stores
// ------------------------------------------------------------------------------------------------

pub type Rec = (usize, String, usize);
pub type Hits = Vec<(usize, String)>;

pub fn rec(id: usize, title: &str, rating: usize) -> Rec {
    (id, title.to_string(), rating)
}

/// A real `Store` holding a pooled `Lang`; the language object goes back to the pool on drop unless
/// a panic was observed while it was in use.
pub struct St {
    pub l: L,
    pub store: Store,
    pub poisoned: bool,
}

impl St {
    pub fn new(l: L) -> St {
        let mut store = Store::new();
        store.lang = take_lang(l);
        St { l, store, poisoned: false }
    }
    pub fn with(l: L, recs: &[Rec], limit: Option<usize>, markers: Option<(&str, &str)>) -> Result<St, PanicInfo> {
        let mut st = St::new(l);
        for r in recs {
            st.add(r)?;
        }
        if let Some(limit) = limit {
            st.store.limit = limit;
        }
        if let Some((a, b)) = markers {
            st.store.highlight_with((a, b));
        }
        Ok(st)
    }
    pub fn add(&mut self, r: &Rec) -> Result<(), PanicInfo> {
        let store = &mut self.store;
        let res = guard(|| {
            let record = Record::new(r.0, &r.1, r.2, &store.lang);
            store.add(record);
        });
        if res.is_err() {
            self.poisoned = true;
        }
        res
    }
    pub fn clear(&mut self) -> Result<(), PanicInfo> {
        let store = &mut self.store;
        let res = guard(|| store.clear());
        if res.is_err() {
            self.poisoned = true;
        }
        res
    }
    pub fn set_limit(&mut self, limit: usize) {
        self.store.limit = limit;
    }
    pub fn set_markers(&mut self, l: &str, r: &str) {
        self.store.highlight_with((l, r));
    }
    pub fn search(&mut self, q: &str) -> Result<Hits, PanicInfo> {
        let store = &self.store;
        let res = guard(|| {
            let query = tokenize_query(q, &store.lang);
            let query = query.to_ref();
            store.search(&query).into_iter().map(|r| (r.id, r.title)).collect::<Vec<_>>()
        });
        if res.is_err() {
            self.poisoned = true;
        }
        res
    }
    pub fn tok_query(&mut self, q: &str) -> Result<TextOwn, PanicInfo> {
        let store = &self.store;
        let res = guard(|| tokenize_query(q, &store.lang));
        if res.is_err() {
            self.poisoned = true;
        }
        res
    }
    pub fn lang(&self) -> &Lang {
        &self.store.lang
    }
}

impl Drop for St {
    fn drop(&mut self) {
        if !self.poisoned {
            let lang = std::mem::replace(&mut self.store.lang, Lang::new());
            give_lang(self.l, lang);
        }
    }
}

pub fn ids(h: &Hits) -> Vec<usize> {
    h.iter().map(|x| x.0).collect()
}

// ------------------------------------------------------------------------------------------------
// Indexable finite domains (mixed-radix un-ranking)
// ------------------------------------------------------------------------------------------------

/// Number of sequences of length lo..=hi over `k` symbols.
pub fn seqs_len(k: u64, lo: u32, hi: u32) -> u64 {
    (lo..=hi).map(|n| k.pow(n)).sum()
}

/// Un-rank: the `idx`-th sequence (shortest first, then lexicographic in symbol index).
pub fn seq_at(k: u64, lo: u32, hi: u32, mut idx: u64) -> Vec<usize> {
    for n in lo..=hi {
        let c = k.pow(n);
        if idx < c {
            let mut v = vec![0usize; n as usize];
            for pos in (0..n as usize).rev() {
                v[pos] = (idx % k) as usize;
                idx /= k;
            }
            return v;
        }
        idx -= c;
    }
    panic!("seq_at: index out of range");
}

pub fn string_at(alpha: &[char], lo: u32, hi: u32, idx: u64) -> String {
    seq_at(alpha.len() as u64, lo, hi, idx).into_iter().map(|i| alpha[i]).collect()
}

/// Split an index over a product of radices (first radix varies slowest).
pub fn unrank(mut idx: u64, radices: &[u64]) -> Vec<u64> {
    let mut out = vec![0; radices.len()];
    for i in (0..radices.len()).rev() {
        out[i] = idx % radices[i];
        idx /= radices[i];
    }
    debug_assert!(idx == 0);
    out
}

pub fn permutations(n: usize) -> Vec<Vec<usize>> {
    fn rec(cur: &mut Vec<usize>, used: &mut Vec<bool>, n: usize, out: &mut Vec<Vec<usize>>) {
        if cur.len() == n {
            out.push(cur.clone());
            return;
        }
        for i in 0..n {
            if !used[i] {
                used[i] = true;
                cur.push(i);
                rec(cur, used, n, out);
                cur.pop();
                used[i] = false;
            }
        }
    }
    let mut out = Vec::new();
    rec(&mut Vec::new(), &mut vec![false; n], n, &mut out);
    out
}

// ------------------------------------------------------------------------------------------------
// Alphabets (DESIGN.md §5)
// ------------------------------------------------------------------------------------------------

pub struct Sym {
    pub v: char,
    pub c: char,
    pub c2: char,
    pub up: char,
}

pub fn sym(l: L) -> Sym {
    if l.is_cyrillic() {
        Sym { v: 'а', c: 'б', c2: 'т', up: 'А' }
    } else {
        Sym { v: 'a', c: 'b', c2: 't', up: 'A' }
    }
}

pub const DIGIT: char = '1';
pub const OTHER: char = 'ω';
pub const QUOTE: char = '\'';
pub const TITLECASE: char = 'ǅ';
pub const LOWER_EXPANDS: char = 'İ';
pub const NBSP: char = '\u{a0}';
pub const NUL: char = '\0';
pub const COMB_DIAERESIS: char = '\u{308}';
pub const COMB_ACUTE: char = '\u{301}';

/// F1: word structure and joins.
pub fn fam1(l: L) -> Vec<char> {
    let s = sym(l);
    vec![s.v, s.c, ' ', '-']
}
/// F2: character classes, costs, edge stripping.
pub fn fam2(l: L) -> Vec<char> {
    let s = sym(l);
    vec![s.v, s.c, DIGIT, OTHER, QUOTE, ' ']
}
/// F3: case, NUL, odd whitespace.
pub fn fam3(l: L) -> Vec<char> {
    let s = sym(l);
    vec![s.v, s.up, NUL, NBSP, ' ']
}
/// F4: an expanding / folding accent of the language with the letters it folds to.
pub fn fam4(l: L) -> Vec<char> {
    match l {
        L::De => vec!['ß', 'ẞ', 's', 'a', ' '],
        L::Fr => vec!['œ', 'o', 'e', ' '],
        L::Es => vec!['ñ', 'n', 'a', ' '],
        L::Pt => vec!['ã', 'a', 'c', ' '],
        L::Ru => vec!['ё', 'е', 'т', ' '],
        // no maps: the same characters must pass through untouched
        _ => vec!['ß', 's', 'a', ' '],
    }
}
/// F5: composition (base, precomposed, mark, upper-case base, separator).
pub fn fam5(l: L) -> Vec<char> {
    match l {
        L::De => vec!['o', 'ö', COMB_DIAERESIS, 'O', ' '],
        L::Fr => vec!['e', 'é', COMB_ACUTE, 'E', ' '],
        L::Es => vec!['o', 'ó', COMB_ACUTE, 'O', ' '],
        L::Pt => vec!['a', 'á', COMB_ACUTE, 'A', ' '],
        L::Ru => vec!['е', 'ё', COMB_DIAERESIS, 'Е', ' '],
        _ => vec!['o', 'ö', COMB_DIAERESIS, 'O', ' '],
    }
}
/// F6: letters that spell the language's commonest suffixes (so stems get shorter than words).
pub fn fam6(l: L) -> Vec<char> {
    match l {
        L::De => "enrsta".chars().collect(),
        L::Fr => "emntai".chars().collect(),
        L::Es => "aosnre".chars().collect(),
        L::Pt => "aosmce".chars().collect(),
        L::Ru => "аеийтс".chars().collect(),
        _ => "eingsd".chars().collect(),
    }
}

/// Word-level lexicon Lℓ (DESIGN.md §5).
pub fn lexicon(l: L) -> Vec<&'static str> {
    match l {
        L::None | L::Basic | L::En => vec!["the", "a", "of", "theory", "metal", "metals", "metol", "wi", "fi", "wifi"],
        L::De => vec!["der", "an", "und", "derb", "stein", "steine", "strasse", "straße", "wi", "wifi"],
        L::Fr => vec!["le", "de", "à", "lent", "métal", "metal", "métaux", "œuf", "oeuf", "wifi"],
        L::Es => vec!["el", "de", "más", "elfo", "metal", "metales", "metol", "niño", "nino", "wifi"],
        L::Pt => vec!["o", "de", "é", "dedo", "metal", "metais", "metol", "ação", "acao", "wifi"],
        L::Ru => vec!["на", "и", "не", "наш", "метал", "металл", "металлы", "ёж", "еж", "вайфай"],
    }
}

pub fn chars(s: &str) -> Vec<char> {
    s.chars().collect()
}

pub fn show(s: &str) -> String {
    // escaped rendering for reports
    s.chars()
        .map(|c| {
            if c == '\0' {
                "\\0".to_string()
            } else if c.is_control() || c == NBSP || ('\u{300}'..='\u{36f}').contains(&c) || ('\u{e000}'..='\u{f8ff}').contains(&c) {
                format!("\\u{{{:x}}}", c as u32)
            } else {
                c.to_string()
            }
        })
        .collect()
}

/// Rust string literal for generated unit tests.
pub fn lit(s: &str) -> String {
    let mut out = String::from("\"");
    for c in s.chars() {
        if c == '"' || c == '\\' {
            out.push('\\');
            out.push(c);
        } else if c.is_ascii_graphic() || c == ' ' {
            out.push(c);
        } else {
            out.push_str(&format!("\\u{{{:x}}}", c as u32));
        }
    }
    out.push('"');
    out
}

/// FNV-1a, for digests and replay file names.
pub fn fnv(h: &mut u64, bytes: &[u8]) {
    for b in bytes {
        *h ^= *b as u64;
        *h = h.wrapping_mul(0x100000001b3);
    }
}
pub const FNV0: u64 = 0xcbf29ce484222325;

/// Exotic Unicode: zero-width and bidi controls, line/paragraph separators, private use, the last code point,
/// letters whose case mappings expand or depend on context, non-ASCII digits and numerics, ligatures,
/// CJK, an emoji, the spec's multi-codepoint punctuation - plus one plain letter in both cases so that
/// words form around them.
pub fn exotic() -> Vec<char> {
    vec![
        'a', 'A', '\u{200d}', '\u{200b}', '\u{feff}', '\u{202e}', '\u{301}', '\u{1f600}', '中', 'ﬁ', 'ŉ', 'ǆ', 'Σ', 'ς', 'İ', 'ı', '\u{2028}', '\u{85}',
        '\u{e000}', '\u{10ffff}', '١', '½', 'ª', '\u{7f}', '—', '…', '⁇', 'ẞ',
    ]
}

/// F7: non-ASCII numerics inside words (subscript, full-width and Arabic-Indic digits)
pub fn fam7(l: L) -> Vec<char> {
    let s = sym(l);
    vec![s.v, s.c, '₂', '１', '٣', ' ']
}

/// F9: control characters other than NUL inside and between words (TAB, ESC, NEL): separators for the tokeniser,
/// part of the stored title for everything that prints it
pub fn fam9(l: L) -> Vec<char> {
    let s = sym(l);
    vec![s.v, s.c, '\t', '\u{1b}', '\u{85}']
}

/// F8: Latin-1 letters and numerics that sit among the Latin-1 punctuation (ª µ º ² ½) next to real punctuation (¡ «)
pub fn fam8(l: L) -> Vec<char> {
    let s = sym(l);
    vec![s.v, 'ª', 'µ', '²', '½', '¡', ' ']
}
