//! C18 — the trigram index returns exactly the records sharing a gram, best first.
//! Drives `store.index.borrow_mut().prepare(query, size)` (public field, public method).

use super::hl::tok_record;
use super::returned::tokq;
use crate::doms::*;
use crate::engine::*;
use crate::refs::*;
use crate::util::*;
use serde_json::json;
use std::collections::BTreeSet;

pub struct Set {
    pub l: L,
    pub name: String,
    pub menu: Vec<String>,
    pub lo: u32,
    pub hi: u32,
    pub queries: Vec<String>,
    pub sizes: Vec<usize>,
    pub block: u64,
}

pub struct C18 {
    pub sets: Vec<Set>,
}

pub fn sets(tier: Tier) -> Vec<Set> {
    let mut sets = Vec::new();
    for l in LANGS {
        let f1 = fam1(l);
        let s = sym(l);
        // (i) every add-sequence of <= 3 (thorough: 4 over a smaller menu) records over short titles incl. duplicates, empty, one-letter words
        let mut menu = all_strings(&f1, 0, 2);
        for extra in [format!("{0}{1}{0} {0}{1}{0}", s.v, s.c), format!("{0}{1}{0}{1}", s.v, s.c), format!("{1}{0}{1}", s.v, s.c)] {
            menu.push(extra);
        }
        let queries = all_strings(&f1, 1, 3);
        if l == L::None || tier == Tier::Thorough {
            sets.push(Set { l, name: format!("add-seqs<=3 over {} short titles", menu.len()), menu: menu.clone(), lo: 0, hi: 3, queries: queries.clone(), sizes: vec![0, 1, 2, 3], block: 60 });
        }
        let small: Vec<String> = vec![String::new(), s.v.to_string(), format!("{}{}", s.v, s.c), format!("{0}{1}{0} {0}{1}{0}", s.v, s.c), format!("{1}{0}", s.v, s.c), format!("{0}{1}{0}{1}", s.v, s.c)];
        sets.push(Set { l, name: "add-seqs<=4 over 6 short titles".into(), menu: small, lo: 0, hi: 4, queries: queries.clone(), sizes: vec![0, 1, 2, 3], block: 40 });
        // (ii) cap reached: 11 / 12 records over a small menu, size 1 (cap 10) and 0
        let three: Vec<String> = vec![format!("{0}{1}{0}", s.v, s.c), format!("{0}{1}", s.v, s.c), format!("{1}{0}", s.v, s.c)];
        // queries with repeated grams (the same word start several times) next to a gram held by other records
        let capq: Vec<String> = vec![
            s.v.to_string(),
            format!("{}{}", s.v, s.c),
            format!("{0}{1}{0}", s.v, s.c),
            format!("{1}{0}", s.v, s.c),
            format!("{1}{0} {0}{1}{0}", s.v, s.c),
            format!("{0} {0} {0} {1}{0}", s.v, s.c),
            format!("{0}{1} {0}{1} {0}{1} {1}", s.v, s.c),
        ];
        if tier == Tier::Thorough {
            sets.push(Set { l, name: "add-seqs 11..12 over 3 titles (cap)".into(), menu: three.clone(), lo: 11, hi: 12, queries: capq.clone(), sizes: vec![0, 1, 2], block: 200 });
        } else {
            sets.push(Set { l, name: "add-seqs 11..12 over 2 titles (cap)".into(), menu: three[..2].to_vec(), lo: 11, hi: 12, queries: capq.clone(), sizes: vec![0, 1, 2], block: 200 });
            if l == L::None || l == L::Ru {
                sets.push(Set { l, name: "add-seqs 11 over 3 titles (cap)".into(), menu: three.clone(), lo: 11, hi: 11, queries: capq.clone(), sizes: vec![1], block: 400 });
            }
        }
        // (iv) long texts: hundreds of shared grams per record
        if l == L::None || l == L::En || tier == Tier::Thorough {
            let t300 = long_text(300, 50);
            let words: Vec<&str> = t300.split(' ').collect();
            let lmenu = vec![t300.clone(), words[..150].join(" "), long_text(60, 100)];
            let lq = vec![t300.clone(), words[100..260].join(" "), long_text(60, 100), words[..3].join(" ")];
            sets.push(Set { l, name: "add-seqs<=2 over 3 long texts (60 / 150 / 300 words)".into(), menu: lmenu, lo: 1, hi: 2, queries: lq, sizes: vec![1, 3], block: 1 });
        }
        // (v) long stores by run length: i x title A, j x title B, k x title C with i + j + k = 26 in every order of the
        //     three titles - more than 2 x 10 x size sharing records, so the top-k helper prunes mid-stream
        if l == L::None || l == L::Ru || tier == Tier::Thorough {
            sets.push(Set { l, name: "run-length stores of 26 over 3 titles (a..a b..b c..c in all 6 orders)".into(), menu: three.clone(), lo: 0, hi: 0, queries: capq.clone(), sizes: vec![1], block: 50 });
            // the same over three titles that share 3 / 2 / 1 grams with the query "vcv": three distinct counts, so a
            // better record can arrive after the prune and after an even better one
            let levels: Vec<String> = vec![format!("{0}{1}{0}", s.v, s.c), format!("{0}{1}", s.v, s.c), s.v.to_string()];
            sets.push(Set { l, name: "run-length stores of 26 over 3 titles sharing 3 / 2 / 1 grams with the query".into(), menu: levels, lo: 0, hi: 0, queries: capq.clone(), sizes: vec![1], block: 50 });
        }
        // (v') four runs over four titles (3 / 2 / 1 / 0 shared grams for the query "vcv"): every composition of 26 into
        //      four run lengths x every title sequence without equal neighbours
        if tier == Tier::Thorough && (l == L::None || l == L::Ru) {
            let four: Vec<String> = vec![format!("{0}{1}{0}", s.v, s.c), format!("{0}{1}", s.v, s.c), s.v.to_string(), format!("{1}{0}", s.v, s.c)];
            sets.push(Set { l, name: "run-length4 stores of 26: four runs over 4 titles (no equal neighbours)".into(), menu: four, lo: 0, hi: 0, queries: capq.clone(), sizes: vec![1], block: 400 });
        }
        // (iii) word-level menu
        let lex = lex_strings(l);
        let mut wmenu: Vec<String> = lex.iter().take(8).cloned().collect();
        wmenu.push(format!("{} {}", lex[3], lex[4]));
        wmenu.push(format!("{}-{}", lex[7], lex[8]));
        let wq = word_queries(&lex, 1);
        sets.push(Set { l, name: "add-seqs<=3 over 10 lexicon titles".into(), menu: wmenu, lo: 0, hi: 3, queries: wq, sizes: vec![1, 3], block: 40 });
    }
    sets
}

impl C18 {
    pub fn new(tier: Tier) -> C18 {
        C18 { sets: sets(tier) }
    }
}

pub const RUN_TOTAL: usize = 26;

/// number of run-length stores: 6 title orders x compositions (i, j, k >= 1, i + j + k = RUN_TOTAL)
pub fn run_len_count() -> u64 {
    6 * ((RUN_TOTAL - 1) * (RUN_TOTAL - 2) / 2) as u64
}

/// number of four-run stores: 4 x 3 x 3 x 3 title sequences x compositions of RUN_TOTAL into four positive parts
pub fn run_len4_count() -> u64 {
    let n = RUN_TOTAL as u64 - 1;
    108 * (n * (n - 1) * (n - 2) / 6)
}

fn store_of_run4(set: &Set, idx: u64) -> Vec<Rec> {
    let mut o = idx % 108;
    let mut c = idx / 108;
    // title sequence: first of 4, then each of the 3 titles different from its predecessor
    let mut seq = vec![(o % 4) as usize];
    o /= 4;
    for _ in 0..3 {
        let prev = *seq.last().unwrap();
        let pick = (o % 3) as usize;
        o /= 3;
        let t = (0..4).filter(|t| *t != prev).nth(pick).unwrap();
        seq.push(t);
    }
    // un-rank the composition (i, j, k, m): enumerate in lexicographic order
    let mut parts = [1usize; 4];
    'found: for i in 1..=RUN_TOTAL - 3 {
        for j in 1..=RUN_TOTAL - i - 2 {
            let ks = (RUN_TOTAL - i - j - 1) as u64; // choices for k
            if c < ks {
                let k = 1 + c as usize;
                parts = [i, j, k, RUN_TOTAL - i - j - k];
                break 'found;
            }
            c -= ks;
        }
    }
    let mut titles: Vec<usize> = Vec::new();
    for (n, t) in parts.iter().zip(seq.iter()) {
        for _ in 0..*n {
            titles.push(*t);
        }
    }
    assert_eq!(titles.len(), RUN_TOTAL);
    titles.into_iter().enumerate().map(|(p, t)| rec(100 + p, &set.menu[t], p)).collect()
}

pub fn store_of(set: &Set, idx: u64) -> Vec<Rec> {
    if set.hi == 0 && set.name.starts_with("run-length4") {
        return store_of_run4(set, idx);
    }
    if set.hi == 0 && set.name.starts_with("run-length") {
        let orders = [[0usize, 1, 2], [0, 2, 1], [1, 0, 2], [1, 2, 0], [2, 0, 1], [2, 1, 0]];
        let order = orders[(idx % 6) as usize];
        let mut c = idx / 6;
        // un-rank the composition
        let mut i = 1;
        loop {
            let rest = (RUN_TOTAL - i - 1) as u64; // choices for j
            if c < rest {
                break;
            }
            c -= rest;
            i += 1;
        }
        let j = 1 + c as usize;
        let k = RUN_TOTAL - i - j;
        let mut titles: Vec<usize> = Vec::new();
        for (n, t) in [(i, order[0]), (j, order[1]), (k, order[2])] {
            for _ in 0..n {
                titles.push(t);
            }
        }
        return titles.into_iter().enumerate().map(|(p, t)| rec(100 + p, &set.menu[t], p)).collect();
    }
    seq_at(set.menu.len() as u64, set.lo, set.hi, idx).into_iter().enumerate().map(|(i, t)| rec(100 + i, &set.menu[t], i)).collect()
}

pub fn set_len(s: &Set) -> u64 {
    if s.hi == 0 && s.name.starts_with("run-length4") {
        return run_len4_count();
    }
    if s.hi == 0 && s.name.starts_with("run-length") {
        run_len_count()
    } else {
        seqs_len(s.menu.len() as u64, s.lo, s.hi)
    }
}

impl Prop for C18 {
    fn doms(&self) -> Vec<Dom> {
        self.sets.iter().map(|s| Dom::new(format!("{}/{}", s.l.tag(), s.name), set_len(s), s.block)).collect()
    }
    fn run(&self, dom: usize, idx: u64, cx: &mut Cx) {
        let set = &self.sets[dom];
        let l = set.l;
        let recs = store_of(set, idx);
        let Some(st) = cx.build_noted(l, &recs, None, None) else { return };
        cx.state();
        let rgrams: Vec<BTreeSet<Gram>> = recs.iter().map(|r| tok_record(l, &r.1).map(|t| text_grams(&t)).unwrap_or_default()).collect();
        for q in &set.queries {
            let Some(qt) = tokq(l, q) else { continue };
            if qt.words.is_empty() {
                cx.skip_pre();
                continue;
            }
            let qgrams = text_grams(&qt);
            let shared: Vec<usize> = rgrams.iter().map(|g| g.intersection(&qgrams).count()).collect();
            let sharing: Vec<usize> = (0..recs.len()).filter(|p| shared[*p] >= 1).collect();
            for &size in &set.sizes {
                cx.eval();
                let got = match cx.call(|| format!("index.prepare lang={} records={:?} query={:?} size={}", l.tag(), recs, q, size), || st.store.index.borrow_mut().prepare(&qt.to_ref(), size)) {
                    Ok(v) => v,
                    Err(p) => {
                        cx.undecided(&p, || format!("prepare lang={} records={:?} query={:?} size={}", l.tag(), recs, q, size));
                        return;
                    }
                };
                cx.validated();
                let cap = 10 * size;
                let mut problem: Option<(&'static str, String)> = None;
                let set_got: BTreeSet<usize> = got.iter().copied().collect();
                if set_got.len() != got.len() {
                    problem = Some(("duplicate-position", format!("{:?}", got)));
                } else if let Some(p) = got.iter().find(|p| **p >= recs.len()) {
                    problem = Some(("position-of-no-record", format!("position {} in a store of {}", p, recs.len())));
                } else if let Some(p) = got.iter().find(|p| shared[**p] == 0) {
                    problem = Some(("candidate-shares-no-gram", format!("position {} ({:?})", p, recs[*p].1)));
                } else if sharing.len() <= cap {
                    if set_got != sharing.iter().copied().collect() {
                        problem = Some(("sharing-record-missing", format!("expected positions {:?} got {:?}", sharing, got)));
                    }
                } else {
                    let counts: Vec<usize> = got.iter().map(|p| shared[*p]).collect();
                    let omitted_max = sharing.iter().filter(|p| !set_got.contains(p)).map(|p| shared[*p]).max().unwrap_or(0);
                    if got.len() != cap {
                        problem = Some(("wrong-cap", format!("{} records share a gram, cap {}, listed {}", sharing.len(), cap, got.len())));
                    } else if counts.windows(2).any(|w| w[0] < w[1]) {
                        problem = Some(("not-best-first", format!("shared-gram counts along the list {:?}", counts)));
                    } else if counts.iter().min().map(|m| omitted_max > *m).unwrap_or(false) {
                        problem = Some(("omitted-shares-more", format!("omitted max {} listed counts {:?}", omitted_max, counts)));
                    }
                }
                match problem {
                    None => {
                        if !got.is_empty() {
                            cx.nontrivial();
                        }
                        cx.class(if sharing.len() > cap { "capped" } else if got.is_empty() { "no-candidate" } else { "all-sharing-listed" });
                        if cx.wants_sample() && sharing.len() > cap && cap > 0 {
                            cx.sample(|| json!({"lang": l.tag(), "titles": recs.iter().map(|r| r.1.clone()).collect::<Vec<_>>(), "query": q, "size": size, "candidates": got, "shared_counts": shared}));
                        }
                    }
                    Some((kind, text)) => {
                        let sig = format!("C18:{}", kind);
                        cx.fail(&sig, || {
                            let mut t = unit_test_body(l, &recs, None, None, &[], "");
                            t = t.replace("}\n", &format!("    let q = tokenize_query({}, &store.lang);\n    let got = store.index.borrow_mut().prepare(&q.to_ref(), {});\n    // {}\n    panic!(\"{{:?}}\", got);\n}}\n", lit(q), size, text));
                            json!({"lang": l.tag(), "titles": recs.iter().map(|r| r.1.clone()).collect::<Vec<_>>(), "query": q, "size": size, "observed": got,
                                   "shared_gram_counts_per_position": shared, "problem": text, "unit_test": t})
                        });
                    }
                }
            }
        }
    }
    fn rule(&self) -> String {
        "sweep: every add-sequence (duplicates, empty titles, one-letter words included) over small title menus up to the listed lengths, plus every sequence of 11..12 records over a 2-3 title menu (candidate cap reached for size 1), plus stores of 26 records made of three (thorough: also four) runs of equal titles in every order and every split of the 26 (more than 2 x 10 x size records share a gram, so the top-k helper prunes mid-stream), x every query with a word x sizes; the candidate list of the real index is compared with shared-gram counts recomputed from the public tokeniser output. Non-trivial = non-empty candidate list; outcome_classes separates capped from uncapped cases.".into()
    }
    fn assumptions(&self) -> Vec<String> {
        vec![
            "gram sets recomputed by the harness from tokenize_record / tokenize_query output".into(),
            "stores limited to the listed menus and lengths (<= 12 records by free sequences, 26 by run lengths)".into(),
        ]
    }
}
