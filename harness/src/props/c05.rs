//! C05 — no unrelated hits, and highlights never exceed what was typed.

use super::hl::*;
use super::returned::{tokq, word_chars};
use crate::doms::*;
use crate::engine::*;
use crate::refs::*;
use crate::util::*;
use serde_json::json;

pub struct C05 {
    /// (language, menu of 3 titles, store length range): many records, limit 1, all queries on ONE store object
    crowded: Vec<(L, Vec<String>, u32, u32)>,
    sets: Vec<HlSet>,
    prefix_sets: Vec<(L, String, Titles)>,
    typo_sets: Vec<(L, String, Titles)>,
}

/// stem + suffix words of 7-10 letters whose stems are (mostly) shorter than the word
pub fn suffixed_words(l: L) -> Vec<String> {
    let f = fam6(l);
    let stems = all_strings(&f[..3], 5, 5);
    let suffixes: Vec<&str> = match l {
        L::De => vec!["en", "ern", "est", "ung"],
        L::Fr => vec!["ement", "er", "es", "ant"],
        L::Es => vec!["ando", "ar", "es", "os"],
        L::Pt => vec!["ando", "ar", "es", "mente"],
        L::Ru => vec!["ами", "ов", "ий", "ость"],
        _ => vec!["er", "es", "ing", "ers"],
    };
    let mut out = Vec::new();
    for s in &stems {
        for x in &suffixes {
            out.push(format!("{}{}", s, x));
        }
    }
    out
}

impl C05 {
    pub fn new(tier: Tier) -> C05 {
        let sets = hl_sets(&Bounds { t: tier.pick(5, 6), q: tier.pick(4, 5), words: tier.pick(2, 3), corpus: true, pairs: false, fams: vec![1, 2, 4, 6, 7] });
        let mut prefix_sets = Vec::new();
        let mut corpus = corpus_en_words();
        corpus.extend(corpus_ecommerce_tokens());
        for l in LANGS {
            prefix_sets.push((l, "exact-prefix:corpus-words".to_string(), Titles::List(corpus.clone())));
            prefix_sets.push((l, "exact-prefix:one word per compose / reduce table row of every language".to_string(), Titles::List(inventory_word_titles(l))));
            prefix_sets.push((l, format!("exact-prefix:F6-words<={}", tier.pick(6, 7)), Titles::Chars { fam: fam6(l), lo: 1, hi: tier.pick(6, 7) }));
            prefix_sets.push((l, format!("exact-prefix:F4-words<={}", tier.pick(6, 8)), Titles::Chars { fam: fam4(l).into_iter().filter(|c| *c != ' ').collect(), lo: 1, hi: tier.pick(6, 8) }));
            prefix_sets.push((l, format!("exact-prefix:F2-words<={}", tier.pick(5, 6)), Titles::Chars { fam: fam2(l).into_iter().filter(|c| *c != ' ').collect(), lo: 1, hi: tier.pick(5, 6) }));
        }
        let mut typo_sets = Vec::new();
        let long_corpus: Vec<String> = corpus.iter().filter(|w| w.chars().count() >= 6).cloned().collect();
        for l in LANGS {
            typo_sets.push((l, "typo-queries:corpus-words>=6".to_string(), Titles::List(long_corpus.clone())));
            typo_sets.push((l, "typo-queries:stem+suffix-words".to_string(), Titles::List(suffixed_words(l))));
        }
        let mut crowded = Vec::new();
        for l in if tier == Tier::Thorough { LANGS.to_vec() } else { vec![L::None, L::Ru] } {
            let (v, v2, c) = if l.is_cyrillic() { ('а', 'е', 'б') } else { ('a', 'e', 'b') };
            // three-letter words that differ only in a first-letter vowel match each other fuzzily but share no gram
            let menu = vec![format!("{}{}{}", v, c, v), format!("{}{}{}", v2, c, v), format!("{}{}{}", v, c, v2)];
            crowded.push((l, menu, 11, tier.pick(11, 12)));
        }
        C05 { crowded, sets, prefix_sets, typo_sets }
    }

    /// Stores of 11..12 records with limit 1 (so the candidate cap of 10 cuts), every 3-letter query over
    /// the same letters in sequence on one store object: clause (a) on every hit.
    fn run_crowded(&self, k: usize, idx: u64, cx: &mut Cx) {
        let (l, menu, lo, hi) = &self.crowded[k];
        let l = *l;
        let recs: Vec<Rec> = seq_at(3, *lo, *hi, idx).into_iter().enumerate().map(|(i, t)| rec(100 + i, &menu[t], i)).collect();
        let Some(mut st) = cx.build_noted(l, &recs, Some(1), Some((SENT_LS, SENT_RS))) else { return };
        cx.state();
        let letters: Vec<char> = { let mut v: Vec<char> = menu.iter().flat_map(|m| m.chars()).collect(); v.sort(); v.dedup(); v };
        let tgrams: Vec<std::collections::BTreeSet<Gram>> = recs.iter().map(|r| tok_record(l, &r.1).map(|t| text_grams(&t)).unwrap_or_default()).collect();
        for qi in 0..seqs_len(letters.len() as u64, 3, 3) {
            let q = string_at(&letters, 3, 3, qi);
            let Some(qt) = tokq(l, &q) else { continue };
            let qgrams = text_grams(&qt);
            cx.eval();
            let hits = match cx.search(&mut st, &q) {
                Ok(h) => h,
                Err(p) => {
                    cx.undecided(&p, || format!("lang={} records={:?} query={:?}", l.tag(), recs, q));
                    return;
                }
            };
            for (id, got) in &hits {
                cx.validated();
                let i = id - 100;
                if tgrams[i].intersection(&qgrams).next().is_none() {
                    cx.fail("C05:unrelated-hit", || json!({"lang": l.tag(), "records": recs, "limit": 1, "queries_run_before_on_the_same_store": (0..qi).map(|j| string_at(&letters, 3, 3, j)).collect::<Vec<_>>(), "query": q, "unrelated_hit": got}));
                } else {
                    cx.nontrivial();
                    cx.class("crowded:related-hit");
                }
            }
        }
    }

    /// One-word titles x every query obtained by deleting one or two letters of the normalised word, typed
    /// unfinished and finished: clauses (a) and (b) on every hit.
    fn run_typos(&self, l: L, titles: &Titles, idx: u64, cx: &mut Cx) {
        let title = titles.get(idx);
        let Some(tok) = tok_record(l, &title) else { return };
        if tok.words.len() != 1 {
            cx.skip_pre();
            return;
        }
        let recs = vec![rec(10, &title, 5), rec(20, &format!("{} {}", if l.is_cyrillic() { "щуп" } else { "quartz" }, title), 1)];
        let Some(mut st) = cx.build_noted(l, &recs, None, Some((SENT_LS, SENT_RS))) else { return };
        cx.state();
        let maps: Vec<(usize, Option<(std::collections::BTreeSet<Gram>, WordMap)>)> = recs.iter().map(|r| (r.0, tok_record(l, &r.1).map(|t| (text_grams(&t), word_map(&t))))).collect();
        let s = tok.words[0].slice;
        let w: Vec<char> = tok.chars[s.0..s.1].to_vec();
        let mut queries: Vec<String> = Vec::new();
        for i in 0..w.len() {
            let mut v = w.clone();
            v.remove(i);
            queries.push(v.iter().collect());
            for j in i..v.len() {
                let mut v2 = v.clone();
                v2.remove(j);
                queries.push(v2.iter().collect());
            }
        }
        queries.sort();
        queries.dedup();
        for q0 in queries {
            for q in [q0.clone(), format!("{} ", q0)] {
                let Some(qt) = tokq(l, &q) else { continue };
                if qt.words.len() != 1 {
                    cx.skip_pre();
                    continue;
                }
                let stretch = qt.words[0].slice.1 - qt.words[0].slice.0;
                let qgrams = text_grams(&qt);
                cx.eval();
                let hits = match cx.search(&mut st, &q) {
                    Ok(h) => h,
                    Err(p) => {
                        cx.undecided(&p, || format!("lang={} records={:?} query={:?}", l.tag(), recs, q));
                        return;
                    }
                };
                for (id, got) in &hits {
                    let Some((_, Some((tgrams, map)))) = maps.iter().find(|m| m.0 == *id) else { continue };
                    cx.validated();
                    if tgrams.intersection(&qgrams).next().is_none() {
                        cx.fail("C05:unrelated-hit", || json!({"lang": l.tag(), "ops": ops_json(&recs, None, Some((SENT_LS, SENT_RS)), &[&q]), "unrelated_hit": got}));
                    }
                    if let Ok(p) = parse_spans(got) {
                        for (s0, e0) in &p.spans {
                            let Some(wi) = map.words.iter().position(|w| w.0 == *s0) else { continue };
                            let ps = map.padded[wi].0;
                            let pe = (ps..map.pos.len()).find(|i| map.pos[*i] == *e0).unwrap_or(ps);
                            let len = pe - ps;
                            if len > stretch + 1 {
                                cx.fail("C05:span-longer-than-typed", || {
                                    json!({"lang": l.tag(), "ops": ops_json(&recs, None, Some((SENT_LS, SENT_RS)), &[&q]), "observed_title": got, "span_length": len, "typed_stretch": stretch,
                                           "unit_test": unit_test_body(l, &recs, None, Some((SENT_LS, SENT_RS)), &[&q], &format!("    // span of {} normalised characters for a query of {}: {}\n", len, stretch, lit(got)))})
                                });
                            } else {
                                cx.nontrivial();
                                cx.class(if len == stretch + 1 { "typo:span=typed+1" } else if len == stretch { "typo:span=typed" } else { "typo:span<typed" });
                                if cx.wants_sample() && len == stretch + 1 {
                                    cx.sample(|| json!({"lang": l.tag(), "title": title, "query": q, "hit": got}));
                                }
                            }
                        }
                    }
                }
            }
        }
    }

    fn run_prefix(&self, l: L, titles: &Titles, idx: u64, cx: &mut Cx) {
        let title = titles.get(idx);
        let Some(tok) = tok_record(l, &title) else { return };
        let recs = vec![rec(10, &title, 5)];
        let Some(mut st) = cx.build_noted(l, &recs, None, Some((SENT_LS, SENT_RS))) else { return };
        cx.state();
        self.run_prefix_as_spelt(l, &title, &recs, &mut st, cx);
        if tok.words.len() != 1 {
            cx.skip_pre();
            return;
        }
        let s = tok.words[0].slice;
        let chars = &tok.chars[s.0..s.1];
        let source = &tok.source[s.0..s.1];
        for k in 1..=chars.len() {
            if !chars[k - 1].is_alphanumeric() {
                continue;
            }
            let q: String = chars[..k].iter().collect();
            // precondition: the query is read as exactly that prefix
            match tokq(l, &q) {
                Some(t) if t.words.len() == 1 && word_chars(&t, 0) == &chars[..k] => {}
                Some(_) => {
                    cx.skip_pre();
                    continue;
                }
                None => {}
            }
            cx.eval();
            let hits = match cx.search(&mut st, &q) {
                Ok(h) => h,
                Err(p) => {
                    cx.undecided(&p, || format!("lang={} title={:?} query={:?}", l.tag(), title, q));
                    return;
                }
            };
            let Some((_, got)) = hits.iter().find(|h| h.0 == 10) else {
                // "the record is returned" is C03's statement, not this one
                cx.skip_pre();
                continue;
            };
            cx.validated();
            let want: String = strip_nul(&source[..k]).into_iter().collect();
            let ok = match parse_spans(got) {
                Ok(p) if p.spans.len() == 1 => p.plain[p.spans[0].0..p.spans[0].1].iter().collect::<String>() == want,
                _ => false,
            };
            if ok {
                cx.nontrivial();
                cx.class(if want.chars().count() != k { "prefix-ends-inside-an-expanded-character" } else if k < chars.len() { "proper-prefix" } else { "whole-word" });
                if cx.wants_sample() && k < chars.len() {
                    cx.sample(|| json!({"lang": l.tag(), "title": title, "query": q, "hit": got}));
                }
            } else {
                cx.fail("C05:exact-prefix-highlight", || {
                    json!({"lang": l.tag(), "ops": ops_json(&recs, None, Some((SENT_LS, SENT_RS)), &[&q]), "expected_highlighted_text": want, "observed_title": got,
                           "unit_test": unit_test_body(l, &recs, None, Some((SENT_LS, SENT_RS)), &[&q], &format!("    // expected exactly one span covering {}; observed {}\n", lit(&want), lit(got)))})
                });
            }
        }
    }

    /// The exact-prefix clause stated on the text the user sees, with NOTHING taken from the tokeniser: a title made of
    /// letters and digits only is one word by the specification of separators (white space, control, punctuation), and
    /// typed character by character as it is spelt it must be highlighted exactly as far as it was typed.
    fn run_prefix_as_spelt(&self, l: L, title: &str, recs: &[Rec], st: &mut St, cx: &mut Cx) {
        let raw: Vec<char> = title.chars().collect();
        if raw.is_empty() || !raw.iter().all(|c| c.is_alphanumeric()) {
            return;
        }
        for k in 1..=raw.len() {
            let q: String = raw[..k].iter().collect();
            cx.eval();
            let hits = match cx.search(st, &q) {
                Ok(h) => h,
                Err(p) => {
                    cx.undecided(&p, || format!("lang={} title={:?} query={:?}", l.tag(), title, q));
                    return;
                }
            };
            let Some((_, got)) = hits.iter().find(|h| h.0 == 10) else {
                cx.skip_pre();
                continue;
            };
            cx.validated();
            let ok = match parse_spans(got) {
                Ok(p) if p.spans.len() == 1 => p.spans[0] == (0, k) && p.plain == raw,
                _ => false,
            };
            if ok {
                cx.nontrivial();
                cx.class(if k < raw.len() { "as-spelt:proper-prefix" } else { "as-spelt:whole-word" });
            } else {
                cx.fail("C05:exact-prefix-highlight-as-spelt", || {
                    json!({"lang": l.tag(), "ops": ops_json(recs, None, Some((SENT_LS, SENT_RS)), &[&q]), "expected_highlighted_text": q, "observed_title": got,
                           "unit_test": unit_test_body(l, recs, None, Some((SENT_LS, SENT_RS)), &[&q], &format!("    // expected exactly one span covering the {} typed characters; observed {}\n", k, lit(got)))})
                });
            }
        }
    }
}

impl Prop for C05 {
    fn doms(&self) -> Vec<Dom> {
        let mut d = hl_doms(&self.sets);
        for (l, name, t) in &self.prefix_sets {
            d.push(Dom::new(format!("{}/{}", l.tag(), name), t.len(), 3000));
        }
        for (l, name, t) in &self.typo_sets {
            d.push(Dom::new(format!("{}/{}", l.tag(), name), t.len(), 100));
        }
        for (l, _, lo, hi) in &self.crowded {
            d.push(Dom::new(format!("{}/crowded stores {}..{} over 3 near-identical titles, limit 1, all 3-letter queries in sequence", l.tag(), lo, hi), seqs_len(3, *lo, *hi), 2000));
        }
        d
    }
    fn run(&self, dom: usize, idx: u64, cx: &mut Cx) {
        if dom >= self.sets.len() + self.prefix_sets.len() + self.typo_sets.len() {
            return self.run_crowded(dom - self.sets.len() - self.prefix_sets.len() - self.typo_sets.len(), idx, cx);
        }
        if dom >= self.sets.len() + self.prefix_sets.len() {
            let (l, _, t) = &self.typo_sets[dom - self.sets.len() - self.prefix_sets.len()];
            return self.run_typos(*l, t, idx, cx);
        }
        if dom >= self.sets.len() {
            let (l, _, t) = &self.prefix_sets[dom - self.sets.len()];
            return self.run_prefix(*l, t, idx, cx);
        }
        let set = &self.sets[dom];
        let l = set.l;
        let title = set.titles.get(idx);
        let (t2, t3) = (companion(set, idx, 0), companion(set, idx, 1));
        let stores: [(Vec<Rec>, usize); 3] =
            [(vec![rec(10, &title, 5)], 10), (vec![rec(20, &t2, 9), rec(10, &title, 5), rec(30, &t3, 1)], 10), (vec![rec(20, &t2, 1), rec(10, &title, 5), rec(30, &t3, 9)], 1)];
        // query side, once per case
        let queries = set.queries_for(&title);
        let qtoks: Vec<Option<(std::collections::BTreeSet<Gram>, usize)>> = queries
            .iter()
            .map(|q| {
                tokq(l, q).and_then(|t| {
                    if t.words.is_empty() {
                        None
                    } else {
                        let stretch = t.words[t.words.len() - 1].slice.1 - t.words[0].slice.0;
                        Some((text_grams(&t), stretch))
                    }
                })
            })
            .collect();
        for (recs, limit) in stores.iter() {
            let Some(mut st) = cx.build_noted(l, recs, Some(*limit), Some((SENT_LS, SENT_RS))) else { return };
            cx.state();
            let toks: Vec<(usize, Option<(std::collections::BTreeSet<Gram>, WordMap)>)> =
                recs.iter().map(|r| (r.0, tok_record(l, &r.1).map(|t| (text_grams(&t), word_map(&t))))).collect();
            for (qi, q) in queries.iter().enumerate() {
                let Some((qgrams, stretch)) = &qtoks[qi] else { continue }; // queries without a word are C12's
                cx.eval();
                let hits = match cx.search(&mut st, q) {
                    Ok(h) => h,
                    Err(p) => {
                        cx.undecided(&p, || format!("lang={} records={:?} query={:?}", l.tag(), recs, q));
                        match cx.build(l, recs, Some(*limit), Some((SENT_LS, SENT_RS))) {
                            Ok(s) => st = s,
                            Err(_) => return,
                        }
                        continue;
                    }
                };
                for (id, got) in &hits {
                    let Some((_, Some((tgrams, map)))) = toks.iter().find(|m| m.0 == *id) else { continue };
                    cx.validated();
                    // (a) the hit shares a gram with the query
                    if tgrams.intersection(qgrams).next().is_none() {
                        cx.fail("C05:unrelated-hit", || {
                            json!({"lang": l.tag(), "ops": ops_json(recs, Some(*limit), Some((SENT_LS, SENT_RS)), &[q]), "unrelated_hit": got,
                                   "unit_test": unit_test_body(l, recs, Some(*limit), Some((SENT_LS, SENT_RS)), &[q], &format!("    assert!(!hits0.iter().any(|h| h.0 == {}), \"record shares no trigram / word start with the query\");\n", id))})
                        });
                    }
                    // (b) no span longer than the typed stretch + 1 (normalised positions, padding included;
                    //     a span end that falls next to padding is taken at its shortest reading)
                    if let Ok(p) = parse_spans(got) {
                        let mut fuzzy = false;
                        for (s, e) in &p.spans {
                            // padded start = start of the word the span belongs to (word alignment itself is C09's)
                            let Some(w) = map.words.iter().position(|w| w.0 == *s) else { continue };
                            let ps = map.padded[w].0;
                            let pe = (ps..map.pos.len()).find(|i| map.pos[*i] == *e).unwrap_or(ps);
                            let len = pe - ps;
                            if len > stretch + 1 {
                                cx.fail("C05:span-longer-than-typed", || {
                                    json!({"lang": l.tag(), "ops": ops_json(recs, Some(*limit), Some((SENT_LS, SENT_RS)), &[q]), "observed_title": got, "span_length": len, "typed_stretch": stretch,
                                           "unit_test": unit_test_body(l, recs, Some(*limit), Some((SENT_LS, SENT_RS)), &[q], &format!("    // span of {} normalised characters for a query stretch of {}: {}\n", len, stretch, lit(got)))})
                                });
                            }
                            if len != *stretch {
                                fuzzy = true;
                            }
                        }
                        if fuzzy {
                            cx.nontrivial();
                        }
                        cx.class(if fuzzy { "hit:fuzzy-or-partial" } else { "hit:exact-length" });
                    }
                }
                if hits.is_empty() {
                    cx.class("no-hit");
                }
            }
        }
    }
    fn rule(&self) -> String {
        "sweep A: every title as a one-record store and inside two three-record stores (limit 10 and limit 1) x every query with at least one word, sentinel markers; every hit must share a gram (trigram or 1-/2-letter word start, recomputed from the public tokeniser) with the query and no span may exceed the typed stretch by more than one normalised character. sweep C (typo queries): every one-word title of the corpus (>= 6 letters) and of a stem+suffix word list per language x every query obtained by deleting one or two letters, typed unfinished and finished - same two clauses. sweep D (crowded stores): every store of 11..12 records over three near-identical 3-letter titles with limit 1 (the candidate cap cuts), all 27 three-letter queries in sequence on one store object - clause (a). sweep B (exact-prefix clause): every one-word title x every prefix of its normalised word ending in a letter or digit; the single span must cover exactly the typed characters of the original. Non-trivial = A: hit with a span whose length differs from the typed stretch (fuzzy / partial / multi-word); B: every validated prefix.".into()
    }
    fn assumptions(&self) -> Vec<String> {
        vec![
            "gram sets are computed by the harness from the public tokeniser output of title and query, independently of utils::trigrams".into(),
            "span length is measured in normalised positions; where the span end is adjacent to NUL padding the shortest consistent reading is taken (can under-estimate by the padding width, never over-estimate)".into(),
            "sweep B does not demand that the record is returned (that is C03); it checks the highlight when it is".into(),
            "a case where the search itself panics is outside this statement (counted under undecided_panics, inside C01's domain)".into(),
        ]
    }
}
