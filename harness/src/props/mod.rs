use crate::engine::{Prop, Tier};

pub mod c10;

pub fn make(id: &str, tier: Tier) -> Option<Box<dyn Prop>> {
    Some(match id {
        "C10" => Box::new(c10::C10::new(tier)),
        _ => return None,
    })
}
