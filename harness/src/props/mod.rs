use crate::engine::{Prop, Tier};

pub mod c02;
pub mod c03;
pub mod c04;
pub mod c13;
pub mod c14;
pub mod c15;
pub mod c05;
pub mod c09;
pub mod c10;
pub mod hl;
pub mod returned;

pub fn make(id: &str, tier: Tier) -> Option<Box<dyn Prop>> {
    Some(match id {
        "C02" => Box::new(c02::C02::new(tier)),
        "C03" => Box::new(c03::C03::new(tier)),
        "C04" => Box::new(c04::C04::new(tier)),
        "C13" => Box::new(c13::C13::new(tier)),
        "C14" => Box::new(c14::C14::new(tier)),
        "C05" => Box::new(c05::C05::new(tier)),
        "C09" => Box::new(c09::C09::new(tier)),
        "C15" => Box::new(c15::C15::new(tier)),
        "C10" => Box::new(c10::C10::new(tier)),
        _ => return None,
    })
}
