//! C19 — unchecked fast paths never touch memory outside their buffers (needs hooks).
//! Oracle: no hook assertion (`verif: ...`) fires and no std debug precondition check aborts the process.

use super::c16;
use super::c17;
use super::c18;
use super::returned::tokq;
use crate::engine::*;
use crate::util::*;
use lucid_suggest_core::verif::{DamerauLevenshtein, Jaccard};
use serde_json::json;

pub struct C19 {
    lang: lucid_suggest_core::Lang,
    long16: Vec<String>,
    menu16: Vec<(String, String)>,
    long17: Vec<String>,
    menu17: Vec<(String, String)>,
    sets18: Vec<c18::Set>,
    hist_depth: u32,
    order_depth: u32,
}

fn word(n: usize, l: L) -> String {
    let abc: Vec<char> = if l.is_cyrillic() { "абвгдежзиклмнопрстуфхцчшщэюя".chars().collect() } else { "abcdefghijklmnopqrstuvwxyz".chars().collect() };
    abc.iter().cycle().take(n).collect()
}

/// (titles of the store, queries) for the search-level histories
fn search_menu(l: L) -> (Vec<Vec<Rec>>, Vec<String>) {
    let stores = vec![
        vec![rec(1, &word(5, l), 1)],
        vec![rec(1, &format!("{} {}", word(21, l), word(5, l)), 1), rec(2, &word(20, l), 2)],
        vec![rec(1, &word(34, l), 1), rec(2, &format!("{}-{}", word(11, l), word(11, l)), 2), rec(3, &word(33, l), 3)],
    ];
    let queries = vec![word(5, l), word(20, l), word(21, l), word(33, l), word(34, l), format!("{}{}", word(11, l), word(11, l))];
    (stores, queries)
}

impl C19 {
    pub fn new(tier: Tier) -> C19 {
        C19 {
            lang: L::Basic.make(),
            long16: c16::long_words(),
            menu16: c16::order_menu(),
            long17: c17::long_seqs(),
            menu17: c17::order_menu(),
            sets18: c18::sets(Tier::Quick).into_iter().filter(|s| tier == Tier::Thorough || matches!(s.l, L::None | L::De | L::Ru)).collect(),
            hist_depth: tier.pick(2, 4),
            order_depth: tier.pick(3, 4),
        }
    }
    fn judge(&self, cx: &mut Cx, r: Result<(), PanicInfo>, what: impl Fn() -> String) {
        cx.validated();
        if let Err(p) = &r {
            cx.panic_seen(p, || json!({"calls": what()}));
        }
        match r {
            Ok(()) => {}
            Err(p) if p.msg.starts_with("verif:") => {
                let site: String = p.msg.split(" at ").nth(1).unwrap_or("?").split(':').next().unwrap_or("?").to_string();
                let sig = format!("C19:out-of-range:{}", site);
                cx.fail(&sig, || json!({"calls": what(), "assertion": p.msg, "location": p.loc}));
            }
            Err(p) => cx.undecided(&p, &what),
        }
    }
}

const LANGS19: [L; 3] = [L::None, L::En, L::Ru];

impl Prop for C19 {
    fn doms(&self) -> Vec<Dom> {
        let m16 = self.menu16.len() as u64;
        let m17 = self.menu17.len() as u64;
        let mut d = vec![
            Dom::new("damlev:long-families", self.long16.len() as u64, 2),
            Dom::new(format!("damlev:call-orders<={}", self.order_depth), seqs_len(m16, 1, self.order_depth), 400).note("one fresh instance per history: growth 22 -> 34 -> 52 -> 79 -> 108 in every order"),
            Dom::new("jaccard:long-families", self.long17.len() as u64, 4),
            Dom::new(format!("jaccard:call-orders<={}", self.order_depth), seqs_len(m17, 1, self.order_depth), 400),
        ];
        for l in LANGS19 {
            let ops = 18u64;
            d.push(Dom::new(format!("{}/search-histories<={}", l.tag(), self.hist_depth), seqs_len(ops, 1, self.hist_depth), 40).note(
                "every sequence of searches (3 stores x 6 queries of 5/20/21/33/34 letters and a joined 22-letter query), each history on a NEW thread so the thread-local matrix and match buffers start at their initial capacity",
            ));
        }
        for s in &self.sets18 {
            d.push(Dom::new(format!("index:{}/{}", s.l.tag(), s.name), c18::set_len(s), s.block * 4));
        }
        d.push(Dom::new(format!("index: interleaved add / prepare / clear histories<={}", self.hist_depth + 4), seqs_len(6, 1, self.hist_depth + 4), 500).note(
            "every sequence over {add x3 (a short title, a two-word title, a word-less title), prepare x2, Store::clear} on ONE store: the counter vector has to follow the record count through every interleaving",
        ));
        d
    }
    fn run(&self, dom: usize, idx: u64, cx: &mut Cx) {
        match dom {
            0 => {
                let a = c16::word_text(&self.long16[idx as usize], Some(&self.lang));
                for s in &self.long16 {
                    let b = c16::word_text(s, Some(&self.lang));
                    cx.eval();
                    cx.state();
                    cx.tr(2);
                    cx.mark(|| format!("distance(long {}, long {})", a.chars.len(), b.chars.len()));
                    let inst = DamerauLevenshtein::new();
                    let r = guard(|| {
                        inst.distance(&a.view(0), &b.view(0));
                        inst.distance(&b.view(0), &a.view(0));
                    });
                    self.judge(cx, r, || format!("distance({:?}, {:?}) both ways on a fresh instance", self.long16[idx as usize], s));
                    if a.chars.len().max(b.chars.len()) > 20 {
                        cx.nontrivial();
                    }
                }
            }
            1 => {
                let m = self.menu16.len() as u64;
                let seq = seq_at(m, 1, self.order_depth, idx);
                let inst = DamerauLevenshtein::new();
                cx.eval();
                cx.state();
                cx.mark(|| format!("damlev history {:?}", seq));
                let mut grows = false;
                let r = guard(|| {
                    for &k in &seq {
                        let (a, b) = (c16::word_text(&self.menu16[k].0, Some(&self.lang)), c16::word_text(&self.menu16[k].1, Some(&self.lang)));
                        inst.distance(&a.view(0), &b.view(0));
                    }
                });
                cx.tr(seq.len() as u64);
                for &k in &seq {
                    if self.menu16[k].0.chars().count().max(self.menu16[k].1.chars().count()) > 20 {
                        grows = true;
                    }
                }
                if grows {
                    cx.nontrivial();
                }
                self.judge(cx, r, || format!("{:?}", seq.iter().map(|k| format!("distance({:?},{:?})", self.menu16[*k].0, self.menu16[*k].1)).collect::<Vec<_>>()));
            }
            2 => {
                let a = chars(&self.long17[idx as usize]);
                for s in &self.long17 {
                    let b = chars(s);
                    cx.eval();
                    cx.state();
                    cx.tr(1);
                    let inst: Jaccard<char> = Jaccard::new();
                    let r = guard(|| {
                        inst.similarity(&a, &b);
                        inst.similarity(&b, &a);
                    });
                    if a.len().max(b.len()) > 20 {
                        cx.nontrivial();
                    }
                    self.judge(cx, r, || format!("similarity({:?}, {:?})", self.long17[idx as usize], s));
                }
            }
            3 => {
                let m = self.menu17.len() as u64;
                let seq = seq_at(m, 1, self.order_depth, idx);
                let inst: Jaccard<char> = Jaccard::new();
                cx.eval();
                cx.state();
                cx.tr(seq.len() as u64);
                let r = guard(|| {
                    for &k in &seq {
                        inst.similarity(&chars(&self.menu17[k].0), &chars(&self.menu17[k].1));
                    }
                });
                if seq.iter().any(|k| self.menu17[*k].0.chars().count().max(self.menu17[*k].1.chars().count()) > 20) {
                    cx.nontrivial();
                }
                self.judge(cx, r, || format!("{:?}", seq.iter().map(|k| format!("similarity({:?},{:?})", self.menu17[*k].0, self.menu17[*k].1)).collect::<Vec<_>>()));
            }
            d if d < 4 + LANGS19.len() => {
                let l = LANGS19[d - 4];
                let (stores, queries) = search_menu(l);
                let seq = seq_at(18, 1, self.hist_depth, idx);
                cx.eval();
                cx.state();
                cx.tr(seq.len() as u64);
                cx.mark(|| format!("search history lang={} {:?}", l.tag(), seq));
                let seq2 = seq.clone();
                // a new thread: fresh thread-local DAMLEV / JACCARD / RMATCHES / QMATCHES
                let handle = std::thread::spawn(move || {
                    install_panic_hook();
                    let _ = lucid_suggest_core::verif::take_hits();
                    let r = guard(|| {
                        let mut sts: Vec<St> = stores.iter().map(|recs| St::with(l, recs, None, None).unwrap()).collect();
                        for op in &seq2 {
                            let (s, q) = (op / 6, op % 6);
                            let _ = sts[s].store.search(&lucid_suggest_core::tokenize_query(&queries[q], &sts[s].store.lang).to_ref());
                        }
                        for st in sts.iter_mut() {
                            st.poisoned = true; // the language objects die with this thread
                        }
                    });
                    (r, lucid_suggest_core::verif::take_hits())
                });
                match handle.join() {
                    Ok((r, hits)) => {
                        cx.extra("search_histories_unchecked_matrix_accesses", hits[0]);
                        cx.extra("search_histories_matrix_growth_events", hits[4]);
                        if hits[4] > 0 {
                            cx.nontrivial();
                            cx.class(match hits[4] {
                                1 => "history:matrix-grew-once",
                                2 => "history:matrix-grew-twice",
                                _ => "history:matrix-grew-3+",
                            });
                        } else {
                            cx.class("history:no-growth");
                        }
                        if cx.wants_sample() && hits[4] > 1 {
                            let (_, queries) = search_menu(l);
                            cx.sample(|| json!({"lang": l.tag(), "history": seq.iter().map(|op| format!("store{}.search({} letters)", op / 6, queries[op % 6].chars().count())).collect::<Vec<_>>(), "matrix_growth_events": hits[4], "unchecked_matrix_accesses": hits[0]}));
                        }
                        let (_, queries) = search_menu(l);
                        self.judge(cx, r, || format!("lang={} {:?}", l.tag(), seq.iter().map(|op| format!("store{}.search({:?})", op / 6, queries[op % 6])).collect::<Vec<_>>()));
                    }
                    Err(_) => cx.machinery("C19: history thread could not be joined".into()),
                }
            }
            d if d == 4 + LANGS19.len() + self.sets18.len() => {
                let seq = seq_at(6, 1, self.hist_depth + 4, idx);
                let titles = ["aba", "ab ba", "--"];
                let queries = ["ab", "ba a"];
                let mut st = St::new(L::None);
                cx.eval();
                cx.state();
                cx.tr(seq.len() as u64);
                cx.mark(|| format!("index history {:?}", seq));
                let mut n = 0usize;
                let r = guard(|| {
                    for op in &seq {
                        if *op == 5 {
                            st.store.clear();
                            n = 0;
                        } else if *op < 3 {
                            let _ = st.add(&rec(100 + n, titles[*op], n));
                            n += 1;
                        } else {
                            let q = lucid_suggest_core::tokenize_query(queries[*op - 3], &st.store.lang);
                            st.store.index.borrow_mut().prepare(&q.to_ref(), 1);
                        }
                    }
                });
                if seq.iter().filter(|o| **o >= 3).count() >= 2 && seq.iter().any(|o| *o < 3) {
                    cx.nontrivial();
                }
                self.judge(cx, r, || format!("one store, operations {:?}", seq.iter().map(|o| if *o == 5 { "clear()".to_string() } else if *o < 3 { format!("add({:?})", titles[*o]) } else { format!("prepare({:?})", queries[*o - 3]) }).collect::<Vec<_>>()));
            }
            d => {
                let set = &self.sets18[d - 4 - LANGS19.len()];
                let l = set.l;
                let recs = c18::store_of(set, idx);
                let Some(st) = cx.build_noted(l, &recs, None, None) else { return };
                cx.state();
                for q in &set.queries {
                    let Some(qt) = tokq(l, q) else { continue };
                    for &size in &set.sizes {
                        cx.eval();
                        cx.tr(1);
                        cx.mark(|| format!("prepare lang={} records={:?} query={:?} size={}", l.tag(), recs, q, size));
                        let r = guard(|| {
                            st.store.index.borrow_mut().prepare(&qt.to_ref(), size);
                        });
                        if !qt.words.is_empty() && !recs.is_empty() {
                            cx.nontrivial();
                        }
                        self.judge(cx, r, || format!("index.prepare lang={} titles={:?} query={:?} size={}", l.tag(), recs.iter().map(|r| r.1.clone()).collect::<Vec<_>>(), q, size));
                    }
                }
            }
        }
    }
    fn abort_is_violation(&self) -> bool {
        true
    }
    fn rule(&self) -> String {
        "hook assertions (row < dimension and column < dimension at every DistMatrix::get / get_unchecked / set_unchecked; index < length at the cost vectors, the Jaccard merge and the trigram counters) plus the standard library's unsafe-precondition checks (checked optimised build) must stay silent over: the C16/C17 long-word families and ALL call orders of length <= 3 from their mixed-length menus; ALL sequences of searches up to the bound over 3 stores x 6 queries of 5..34 letters, each history on a new thread; the C18 add-sequences. Non-trivial = an execution in which a buffer is beyond its initial capacity (word > 20 letters / a growth event / a counted record). coverage.probes reports how many unchecked accesses were actually asserted.".into()
    }
    fn assumptions(&self) -> Vec<String> {
        vec![
            "the assertion sites are the cfg(lucid_suggest_verif) hooks listed in MANIFEST.hooks; an access site added later without a hook is only covered by the standard library's own debug precondition check (flat-buffer range)".into(),
            "word lengths up to 70, call orders up to length 3, search histories up to the listed depth".into(),
        ]
    }
}
