//! C07 — ranking is a consistent order, independent of other records and insertion order.

use super::c06::*;
use crate::engine::*;
use crate::util::*;
use serde_json::json;

pub struct C07 {
    /// languages for the generated store of 110 records (limit 12, more than 100 candidates): four insertion orders
    big: Vec<L>,
    sets: Vec<MultiSet>,
    perms: Vec<Vec<Vec<usize>>>,
}

impl C07 {
    pub fn new(tier: Tier) -> C07 {
        let mut sets: Vec<MultiSet> = multi_sets(tier).into_iter().filter(|s| s.distinct_ratings && s.hi <= 5).collect();
        if tier == Tier::Thorough {
            // n! orders x all pairs: keep the 86-title F1 menu out of this check (C06 sweeps it)
            sets.retain(|s| !(s.name.contains("F1 titles") && s.menu.len() > 40));
            for l in [L::None] {
                let f1 = fam1(l);
                let sy = sym(l);
                let mut menu = crate::doms::all_strings(&f1, 0, 2);
                for extra in [format!("{0}{1}{0}", sy.v, sy.c), format!("{0}{0}{1}", sy.v, sy.c), format!("{0}{1}{1}", sy.v, sy.c), format!("{0}-{0}{1}", sy.v, sy.c), format!("{0}{1} {0}", sy.v, sy.c), format!("{1}{0}{1}{0}", sy.v, sy.c)] {
                    menu.push(extra);
                }
                sets.push(MultiSet { l, name: format!("stores<=3 over {} F1 titles", menu.len()), menu, lo: 0, hi: 3, queries: crate::doms::all_strings(&f1, 0, 3), limits: None, distinct_ratings: true, huge_ratings: false, ratings: None, block: 30 });
            }
        }
        if tier == Tier::Quick {
            // n! permutations x pairs make this the most expensive sweep: the quick tier keeps the F1 and
            // top-k stores for two scripts and searches the lexicon stores with one-word queries
            sets.retain(|s| s.name.contains("lexicon") || matches!(s.l, L::None | L::Ru));
            for s in sets.iter_mut() {
                if s.name.contains("lexicon") {
                    s.queries = crate::doms::word_queries(&crate::doms::lex_strings(s.l), 1);
                }
            }
        }
        if tier == Tier::Thorough {
            // n = 4: all 24 insertion orders over the lexicon menu
            for l in LANGS {
                let lex = crate::doms::lex_strings(l);
                let menu: Vec<String> = vec![lex[3].clone(), lex[4].clone(), lex[5].clone(), format!("{} {}", lex[0], lex[4]), format!("{}-{}", lex[7], lex[8]), lex[9].clone()];
                sets.push(MultiSet { l, name: "stores of 4 over 6 lexicon titles".into(), menu, lo: 4, hi: 4, queries: crate::doms::word_queries(&lex, 1), limits: None, distinct_ratings: true, huge_ratings: false, ratings: None, block: 20 });
            }
        }
        // the same small stores with ratings at the top of the usize range (distinct values on both sides of 2^63)
        for l in [L::None, L::En] {
            let lex = crate::doms::lex_strings(l);
            let menu: Vec<String> = vec![lex[4].clone(), lex[5].clone(), lex[6].clone(), format!("{} {}", lex[4], lex[9])];
            sets.push(MultiSet { l, name: "stores<=3 over 4 lexicon titles, ratings around 2^63".into(), menu, lo: 2, hi: 3, queries: crate::doms::word_queries(&lex, 1), limits: None, distinct_ratings: true, huge_ratings: true, ratings: None, block: 10 });
        }
        // ... and with ordinary ratings next to ratings beyond 2^63 (every assignment of the three ratings to the titles,
        // every insertion order): a comparator that subtracts, casts or negates scores wraps for some pairs only
        sets.extend(mixed_rating_sets());
        C07 { big: tier.pick(vec![L::None, L::En], LANGS.to_vec()), sets, perms: (0..=5).map(permutations).collect() }
    }
}

impl C07 {
    /// 110 records that all share grams with the queries, pairwise distinct ratings, limit 12 (|store| <= 10*limit):
    /// ascending, descending, interleaved and rotated insertion must give the same hit lists.
    fn run_big(&self, l: L, cx: &mut Cx) {
        let (w1, w2) = if l.is_cyrillic() { ("кружка", "металл") } else { ("mug", "metal") };
        let n = 110usize;
        let recs: Vec<Rec> = (0..n).map(|i| rec(1000 + i, &match i % 3 { 0 => format!("{} {}", w1, i), 1 => format!("{} {} {}", w2, w1, i), _ => format!("{}{}", w1, i) }, i * 13 + 5)).collect();
        let mut orders: Vec<Vec<usize>> = vec![(0..n).collect(), (0..n).rev().collect()];
        orders.push((0..n).map(|i| if i % 2 == 0 { i / 2 } else { n - 1 - i / 2 }).collect());
        orders.push((0..n).map(|i| (i + 37) % n).collect());
        let queries: Vec<String> = vec![w1.chars().take(1).collect(), w1.to_string(), format!("{} {}", w2, w1), String::new()];
        let mut base: Vec<Hits> = Vec::new();
        for (oi, order) in orders.iter().enumerate() {
            let ordered: Vec<Rec> = order.iter().map(|i| recs[*i].clone()).collect();
            let Ok(mut st) = cx.build(l, &ordered, Some(12), None) else { return };
            cx.state();
            for (qi, q) in queries.iter().enumerate() {
                cx.eval();
                let Ok(hits) = cx.search(&mut st, q) else { return };
                if oi == 0 {
                    base.push(hits);
                    continue;
                }
                cx.validated();
                let order_name = ["ascending", "descending", "interleaved", "rotated by 37"][oi];
                if hits != base[qi] {
                    cx.fail("C07:insertion-order-changes-hit-list(110 records, limit 12)", || {
                        serde_json::json!({"lang": l.tag(), "store": format!("110 records '{} i' / '{} {} i' / '{}i', rating 13*i+5", w1, w2, w1, w1), "limit": 12, "insertion_order": order_name, "query": q,
                                            "observed_ids": ids(&hits), "ascending_insertion_ids": ids(&base[qi])})
                    });
                } else if hits.len() >= 2 {
                    cx.nontrivial();
                }
            }
        }
    }
}

impl Prop for C07 {
    fn doms(&self) -> Vec<Dom> {
        let mut d: Vec<Dom> = self.sets.iter().map(|s| Dom::new(format!("{}/{}", s.l.tag(), s.name), crate::util::seqs_len(s.menu.len() as u64, s.lo, s.hi), s.block)).collect();
        d.push(Dom::new("generated store of 110 records, limit 12: four insertion orders", self.big.len() as u64, 1));
        d
    }
    fn run(&self, dom: usize, idx: u64, cx: &mut Cx) {
        if dom == self.sets.len() {
            return self.run_big(self.big[idx as usize], cx);
        }
        let set = &self.sets[dom];
        let l = set.l;
        let recs = store_at(set, idx);
        let n = recs.len();
        if n < 2 {
            return;
        }
        // limits with |store| <= 10 * limit
        let limits: Vec<usize> = [1usize, 2, n + 2].iter().copied().filter(|k| n <= 10 * k).collect();
        let mut stores: Vec<(Vec<usize>, usize, St)> = Vec::new();
        for perm in &self.perms[n] {
            let order: Vec<Rec> = perm.iter().map(|i| recs[*i].clone()).collect();
            for &k in &limits {
                match cx.build(l, &order, Some(k), None) {
                    Ok(s) => stores.push((perm.clone(), k, s)),
                    Err(_) => return,
                }
            }
        }
        // "chatty" builds: the same insertion orders, but with an empty-query and a non-empty search after every add
        // (the statement speaks about adding the same records in a different order, not about when searches happen)
        let nplain = stores.len();
        let probe = set.queries.iter().find(|q| q.chars().any(|c| c.is_alphanumeric())).cloned().unwrap_or_default();
        let chatty_perms: Vec<&Vec<usize>> = if cx.tier == Tier::Thorough { self.perms[n].iter().collect() } else { vec![&self.perms[n][0], self.perms[n].last().unwrap()] };
        for perm in chatty_perms {
            for &k in &limits {
                let mut st = St::new(l);
                st.set_limit(k);
                let mut ok = true;
                for i in perm {
                    if cx.add(&mut st, &recs[*i]).is_err() || st.search("").is_err() || st.search(&probe).is_err() {
                        ok = false;
                        break;
                    }
                }
                if !ok {
                    return;
                }
                stores.push((perm.clone(), k, st));
            }
        }
        let _ = nplain;
        // two-record stores, both insertion orders
        let mut pairs: Vec<(usize, usize, St)> = Vec::new();
        for a in 0..n {
            for b in 0..n {
                if a != b {
                    match cx.build(l, &[recs[a].clone(), recs[b].clone()], None, None) {
                        Ok(s) => pairs.push((a, b, s)),
                        Err(_) => return,
                    }
                }
            }
        }
        cx.state();
        let nl = limits.len();
        let mut queries: Vec<String> = set.queries.clone();
        if !queries.iter().any(|q| q.is_empty()) {
            queries.insert(0, String::new());
        }
        for q in &queries {
            // base = identity insertion order
            let mut base: Vec<Hits> = Vec::new();
            for (pi, (perm, k, st)) in stores.iter_mut().enumerate() {
                cx.eval();
                let hits = match cx.search(st, q) {
                    Ok(h) => h,
                    Err(p) => {
                        if pi < nl {
                            cx.undecided(&p, || format!("lang={} records={:?} query={:?}", l.tag(), recs, q));
                        } else {
                            let order: Vec<Rec> = perm.iter().map(|i| recs[*i].clone()).collect();
                            let sig = format!("C07:panic-for-one-insertion-order:{}", p.sig());
                            cx.fail(&sig, || json!({"lang": l.tag(), "ops": ops_json(&order, Some(*k), None, &[q]), "panic": p.text()}));
                        }
                        return;
                    }
                };
                if pi < nl {
                    base.push(hits);
                    continue;
                }
                cx.validated();
                let want = &base[pi % nl];
                let chatty = pi >= nplain;
                if &hits != want {
                    let order: Vec<Rec> = perm.iter().map(|i| recs[*i].clone()).collect();
                    cx.fail(if chatty { "C07:insertion-order-changes-hit-list(searches-between-adds)" } else { "C07:insertion-order-changes-hit-list" }, || {
                        json!({"lang": l.tag(), "ops": ops_json(&order, Some(*k), None, &[q]), "searches_after_every_add": if chatty { json!(["", probe]) } else { json!(null) }, "observed": hits, "same_records_inserted_as": recs, "returned": want,
                               "unit_test": unit_test_body(l, &order, Some(*k), None, &[q], &format!("    // inserted in the order {:?} the same records return {:?}\n    assert_eq!(hits0, {:?});\n", recs.iter().map(|r| r.0).collect::<Vec<_>>(), want, want))})
                    });
                } else if hits.len() >= 2 {
                    cx.nontrivial();
                }
            }
            // every pair of hits: same relative order as in the two-record store, either insertion order
            let full = base.last().cloned().unwrap_or_default();
            let order_ids = ids(&full);
            for (a, b, st) in pairs.iter_mut() {
                let (ida, idb) = (recs[*a].0, recs[*b].0);
                let (Some(pa), Some(pb)) = (order_ids.iter().position(|x| *x == ida), order_ids.iter().position(|x| *x == idb)) else { continue };
                cx.eval();
                let hits = match cx.search(st, q) {
                    Ok(h) => h,
                    Err(p) => {
                        let sig = format!("C07:panic-in-two-record-store:{}", p.sig());
                        cx.fail(&sig, || json!({"lang": l.tag(), "ops": ops_json(&[recs[*a].clone(), recs[*b].clone()], None, None, &[q]), "panic": p.text()}));
                        return;
                    }
                };
                cx.validated();
                let two = ids(&hits);
                let (qa, qb) = (two.iter().position(|x| *x == ida), two.iter().position(|x| *x == idb));
                let same = match (qa, qb) {
                    (Some(qa), Some(qb)) => (pa < pb) == (qa < qb),
                    _ => false, // both are hits in the larger store, so both must be hits here
                };
                if !same {
                    let two_recs = vec![recs[*a].clone(), recs[*b].clone()];
                    cx.fail("C07:pair-order-depends-on-other-records", || {
                        json!({"lang": l.tag(), "ops": ops_json(&two_recs, None, None, &[q]), "observed_in_two_record_store": hits, "full_store": recs, "full_store_hits": full,
                               "unit_test": unit_test_body(l, &two_recs, None, None, &[q], &format!("    // in the store {:?} the hits are {:?}\n    panic!(\"{{:?}}\", hits0);\n", recs, full))})
                    });
                }
                cx.class(if pa < pb { "pair:first-inserted-ranks-first" } else { "pair:second-inserted-ranks-first" });
            }
        }
    }
    fn rule(&self) -> String {
        "sweep: every store of 2..3 (thorough: ..5) records with pairwise distinct ratings over the menus x ALL insertion permutations (each built plainly; the identity and the reversed order - thorough: every order - also built with an empty and a non-empty search after every add) x limits {1, 2, |store|+2} with |store| <= 10*limit x every query: the hit list must be identical for every permutation; for every ordered pair of hits of the full store the two-record store, in both insertion orders, must rank them the same way. Non-trivial = a permuted store returning the same list of at least two hits.".into()
    }
    fn assumptions(&self) -> Vec<String> {
        vec![
            "reference executions are the real code (identity insertion order, two-record stores)".into(),
            "stores of at most 5 records (n! permutations), menus as listed".into(),
        ]
    }
}
