//! C14 — split and joined spellings find each other.

use super::c13::{src_word, title_sets};
use super::returned::*;
use crate::engine::*;
use crate::util::*;
use lucid_suggest_core::TextOwn;

pub struct C14 {
    sets: Vec<TitleSet>,
}

impl C14 {
    pub fn new(tier: Tier) -> C14 {
        C14 { sets: title_sets(tier, (6, 9), (5, 7), (6, 8)) }
    }
}

fn gen(l: L, _title: &str, tok: &TextOwn, cx: &mut Cx) -> Queries {
    let mut out: Queries = Vec::new();
    let n = tok.words.len();
    let mut seen: Vec<String> = Vec::new();
    // (a) a title word of >= 3 characters spelled as two words, at every split point where both halves are words
    for w in 0..n {
        let src: Vec<char> = src_word(tok, w).chars().collect();
        if word_chars(tok, w).len() < 3 || src.len() < 3 {
            continue;
        }
        for k in 1..src.len() {
            let (a, b) = (&src[..k], &src[k..]);
            let is_word = |s: &[char]| s.first().map(|c| c.is_alphanumeric()).unwrap_or(false) && s.last().map(|c| c.is_alphanumeric()).unwrap_or(false);
            if !is_word(a) || !is_word(b) {
                cx.skip_pre();
                continue;
            }
            let q = format!("{} {}", a.iter().collect::<String>(), b.iter().collect::<String>());
            // precondition: the typed text is read as exactly two words
            match tokq(l, &q) {
                Some(t) if t.words.len() != 2 => {
                    cx.skip_pre();
                    continue;
                }
                _ => {}
            }
            if !seen.contains(&q) {
                seen.push(q.clone());
                out.push((q, "split-title-word", true));
            }
        }
    }
    // (b) two adjacent title words separated by a single separator character, run together
    for w in 0..n.saturating_sub(1) {
        let (s1, s2) = (tok.words[w].slice, tok.words[w + 1].slice);
        if s2.0 != s1.1 + 1 {
            continue;
        }
        let q = format!("{}{}", src_word(tok, w), src_word(tok, w + 1));
        if q.chars().count() < 3 {
            cx.skip_pre();
            continue;
        }
        // preconditions of the statement, through the public tokeniser: one word, >= 3 characters,
        // stemming leaves it unchanged
        match tokq(l, &q) {
            Some(t) => {
                if t.words.len() != 1 || t.words[0].stem != t.words[0].slice.1 - t.words[0].slice.0 || t.words[0].slice.1 - t.words[0].slice.0 < 3 {
                    cx.skip_pre();
                    continue;
                }
            }
            None => {}
        }
        if !seen.contains(&q) {
            seen.push(q.clone());
            out.push((q, "joined-title-words", true));
        }
    }
    out
}

impl Prop for C14 {
    fn doms(&self) -> Vec<Dom> {
        doms_of(&self.sets)
    }
    fn run(&self, dom: usize, idx: u64, cx: &mut Cx) {
        run_returned("C14", &self.sets[dom], idx, cx, &gen);
    }
    fn abort_is_violation(&self) -> bool {
        true
    }
    fn rule(&self) -> String {
        "sweep: every title x store contexts (|store| <= limit) x {every word of >= 3 characters split at every point where both halves begin and end with a letter or digit, typed as two words; every adjacent word pair separated by exactly one separator character, typed run together, when the public tokeniser reads it as one word of >= 3 characters whose stem length equals its length}. Every generated query is non-trivial.".into()
    }
    fn assumptions(&self) -> Vec<String> {
        vec!["titles limited to the e-commerce titles, the word-level lexicon domain and all strings over F1/F2/F4 up to the listed lengths".into(),
             "split points whose halves are not words (edge would be stripped by the tokeniser) are outside the statement and counted as skipped".into()]
    }
}
