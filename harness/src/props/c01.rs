//! C01 — indexing and searching never panic, abort or trap on any input; checked == shipping.
//!
//! A meta-driver: its own sweep and history search, plus the subject-call sets of the other checks'
//! domains re-run in "C01 mode" (oracles muted, every unwinding panic recorded, every hit list
//! digested).  The supervisor runs the whole thing in the checked build and again in the shipping
//! build and compares the per-block digests (DESIGN.md §6 C01).

use super::c10::{C10Sys, Menu, Op as HOp};
use super::*;
use crate::bfs::bfs;
use crate::doms::*;
use crate::engine::*;
use crate::util::*;
use std::time::Duration;

struct OwnSet {
    l: L,
    name: String,
    titles: Titles,
    queries: Vec<String>,
    block: u64,
}

pub struct C01 {
    tier: Tier,
    own: Vec<OwnSet>,
    bfs_cfgs: Vec<(L, usize)>,
    subs: Vec<(&'static str, Box<dyn Prop>, Vec<Dom>)>,
    /// flat domain index -> (kind, local index); kind 0 = own sweep, 1 = own bfs, 2+k = sub-property k
    map: Vec<(usize, usize)>,
    doms: Vec<Dom>,
    deferred: Vec<&'static str>,
}

fn hist_menu(l: L) -> Menu {
    let w = |n: usize| -> String {
        let abc: Vec<char> = if l.is_cyrillic() { "абвгдежзиклмнопрстуфхцчшщэюя".chars().collect() } else { "abcdefghijklmnopqrstuvwxyz".chars().collect() };
        abc.iter().cycle().take(n).collect()
    };
    let (aa, ts, tsq, typo) = if l.is_cyrillic() { ("а а", "т-шорт", "тшорт", "металл") } else { ("a a", "t-shirt", "tshirt", "metall") };
    Menu {
        recs: vec![rec(1, "", 0), rec(2, &w(22), (1 << 31) - 1), rec(3, aa, 5), rec(4, ts, 7)],
        queries: vec!["".into(), aa.replace(' ', ""), tsq.into(), typo.into(), w(25), format!("{} {}", w(3), w(21))],
    }
}

impl C01 {
    pub fn new(tier: Tier) -> C01 {
        let mut own = Vec::new();
        let (t, q) = tier.pick((4, 4), (5, 5));
        for l in LANGS {
            for (name, fam) in [("F1", fam1(l)), ("F2", fam2(l)), ("F3", fam3(l)), ("F4", fam4(l)), ("F5", fam5(l)), ("F6", fam6(l))] {
                let shrink = if fam.len() >= 6 { 1 } else { 0 };
                let queries = all_strings(&fam, 0, q - shrink);
                let nq = queries.len() as u64;
                own.push(OwnSet { l, name: format!("own:{}:T<={}xQ<={}", name, t - shrink, q - shrink), titles: Titles::Chars { fam, lo: 0, hi: t - shrink }, queries, block: (60_000 / nq).clamp(1, 500) });
            }
            if tier == Tier::Thorough || matches!(l, L::None | L::De | L::Ru) {
                let ex = exotic();
                let queries = all_strings(&ex, 0, 2);
                let nq = queries.len() as u64;
                own.push(OwnSet { l, name: "own:exotic28:T<=2xQ<=2".into(), titles: Titles::Chars { fam: ex, lo: 0, hi: 2 }, queries, block: (60_000 / nq).clamp(1, 500) });
            }
            if tier == Tier::Thorough || matches!(l, L::None | L::En) {
                // hundreds of words: more than 255 grams shared between one query and one record
                let t300 = long_text(300, 50);
                let words: Vec<&str> = t300.split(' ').collect();
                let queries = vec![t300.clone(), words[..150].join(" "), words[150..].join(" "), words[..60].join(" "), long_text(60, 100)];
                own.push(OwnSet { l, name: "own:very long texts (60 / 300 corpus words) x whole and partial texts as queries".into(), titles: Titles::List(vec![t300, long_text(60, 100)]), queries, block: 1 });
            }
            let lex = lex_strings(l);
            let queries = word_queries(&lex, 2);
            let nq = queries.len() as u64;
            let maxw = tier.pick(2, 3);
            own.push(OwnSet { l, name: format!("own:lexicon:T<={}w x Q<=2w", maxw), titles: Titles::Words { lex, maxw }, queries, block: (60_000 / nq).clamp(1, 500) });
        }
        let mut bfs_cfgs = Vec::new();
        for l in tier.pick(vec![L::None, L::En], LANGS.to_vec()) {
            for s in 0..3 {
                bfs_cfgs.push((l, s));
            }
        }
        // other checks' domains, at their quick bounds
        let mut subs: Vec<(&'static str, Box<dyn Prop>, Vec<Dom>)> = Vec::new();
        let mut deferred = Vec::new();
        let mut add = |id: &'static str, p: Box<dyn Prop>| {
            let d = p.doms();
            subs.push((id, p, d));
        };
        add("C10", Box::new(c10::C10::new(Tier::Quick)));
        add("C12", Box::new(c12::C12::new(Tier::Quick)));
        if tier == Tier::Thorough {
            add("C11", Box::new(c11::C11::new(Tier::Quick)));
            add("C20", Box::new(c20::C20::new(Tier::Quick)));
        } else {
            add("C20", Box::new(c20::C20::shallow(5, 3)));
            // single-typo queries against words in the middle of a title reach the joined-word and split paths
            add("C04", Box::new(c04::C04::slim()));
        }
        #[cfg(lucid_suggest_verif)]
        {
            // direct-drive domains: no hit lists to digest, so they run in the checked build only
            add("C15", Box::new(c15::C15::with_bound(tier.pick(5, 6))));
            if tier == Tier::Thorough {
                // in the quick tier the index is driven through C19's copy of these add-sequences
                add("C18", Box::new(c18::C18::new(Tier::Quick)));
            }
            add("C16", Box::new(c16::C16::new(Tier::Quick)));
            add("C17", Box::new(c17::C17::with_bound(tier.pick(5, 6))));
            add("C19", Box::new(c19::C19::new(Tier::Quick)));
        }
        if tier == Tier::Thorough {
            // C03, C04, C13, C14 report panics themselves ("record not returned"); here they add the
            // checked-vs-shipping digest comparison over their domains
            add("C03", Box::new(c03::C03::new(Tier::Quick)));
            add("C13", Box::new(c13::C13::new(Tier::Quick)));
            add("C14", Box::new(c14::C14::new(Tier::Quick)));
            add("C02", Box::new(c02::C02::new(Tier::Quick)));
            add("C04", Box::new(c04::C04::new(Tier::Quick)));
            add("C05", Box::new(c05::C05::new(Tier::Quick)));
            add("C06", Box::new(c06::C06::new(Tier::Quick)));
            add("C07", Box::new(c07::C07::new(Tier::Quick)));
            add("C08", Box::new(c08::C08::new(Tier::Quick)));
            add("C09", Box::new(c09::C09::new(Tier::Quick)));
        } else {
            deferred = vec!["C02", "C03", "C04 beyond its slim slice", "C05", "C06", "C07", "C08", "C09", "C11", "C13", "C14", "C20 beyond depth 5"];
        }
        let mut map = Vec::new();
        let mut doms = Vec::new();
        for (i, s) in own.iter().enumerate() {
            map.push((0, i));
            doms.push(Dom::new(format!("{}/{}", s.l.tag(), s.name), s.titles.len(), s.block));
        }
        map.push((1, 0));
        doms.push(Dom::new("own:histories", bfs_cfgs.len() as u64, 1).budget(tier.pick(170, 3000)).note(format!(
            "BFS to depth {} over {{add x4 (empty title, 22-letter word, 'a a', 't-shirt'), limit x4, markers x3, search x6 (empty, joined, typo, 25-letter, 3+21 letters)}} from stores preloaded with 0 / 1 / 3 records; no clear()",
            tier.pick(4, 6)
        )));
        for (k, (id, _, ds)) in subs.iter().enumerate() {
            for (j, d) in ds.iter().enumerate() {
                map.push((2 + k, j));
                let mut d2 = d.clone();
                d2.name = format!("{}::{}", id, d.name);
                doms.push(d2);
            }
        }
        C01 { tier, own, bfs_cfgs, subs, map, doms, deferred }
    }
}

impl Prop for C01 {
    fn abort_is_violation(&self) -> bool {
        true
    }
    fn doms(&self) -> Vec<Dom> {
        self.doms.clone()
    }
    fn run(&self, dom: usize, idx: u64, cx: &mut Cx) {
        let (kind, local) = self.map[dom];
        match kind {
            0 => {
                let set = &self.own[local];
                let l = set.l;
                let title = set.titles.get(idx);
                let s = sym(l);
                let (mv, mc) = (s.v.to_string(), s.c.to_string());
                let cfgs: [(usize, (&str, &str), usize); 5] = [(10, ("[", "]"), 0), (1, ("<b>", "</b>"), (1 << 31) - 1), (65536, (&mv, &mc), 5), (0, ("", ""), 1), (2, ("", ""), 2)];
                // quick tier: three of the five configurations (default, limit 1 with long markers and the top rating, limit 0)
                let ncfg = self.tier.pick(3, 5);
                for (limit, markers, rating) in [cfgs[0], cfgs[1], cfgs[3], cfgs[2], cfgs[4]].into_iter().take(ncfg) {
                    let recs = vec![rec(10, &title, rating)];
                    let Ok(mut st) = cx.build(l, &recs, Some(limit), Some(markers)) else { return };
                    cx.state();
                    for q in &set.queries {
                        cx.eval();
                        cx.validated();
                        match cx.search(&mut st, q) {
                            Ok(h) => {
                                if !h.is_empty() {
                                    cx.nontrivial();
                                }
                                cx.class(if h.is_empty() { "own:no-hit" } else { "own:hit" });
                                if cx.wants_sample() && !h.is_empty() {
                                    cx.sample(|| serde_json::json!({"lang": l.tag(), "records": recs, "limit": limit, "markers": markers, "query": q, "hits": h}));
                                }
                            }
                            Err(_) => match cx.build(l, &recs, Some(limit), Some(markers)) {
                                Ok(s2) => st = s2,
                                Err(_) => return,
                            },
                        }
                    }
                }
            }
            1 => {
                let (l, s) = self.bfs_cfgs[idx as usize];
                let sys = C10Sys { l, menu: hist_menu(l), prop: "C01", allow_clear: false };
                let start: Vec<HOp> = [vec![], vec![2], vec![0, 1, 3]][s].iter().map(|i| HOp::Add(*i)).collect();
                let out = bfs(&sys, cx, "own_hist_", vec![start], self.tier.pick(4, 6), true, Duration::from_secs(self.tier.pick(120, 2400)), None);
                cx.class(&format!("own:bfs:depth{}", out.depth_completed));
            }
            k => {
                let (_, p, _) = &self.subs[k - 2];
                p.run(local, idx, cx);
            }
        }
    }
    fn rule(&self) -> String {
        format!(
            "(i) own sweep: every title up to the bound over six character families and the word-level lexicon, as a one-record store under three (quick) / five (thorough) (limit, markers, rating) configurations - limit 10 / 1 / 0, thorough also 65536 / 2, bracket / long / empty / title-character markers, rating 0 / 2^31-1 - x every query up to the bound; (ii) own history search (BFS, no clear) over adds of awkward records, limit / marker changes and searches; (iii) the complete domains of the checks {:?} at their quick bounds, re-run with their oracles muted. Every unwinding panic, process abort or confirmed time-out is a violation; the whole run is repeated in the shipping build (guard off, no overflow / debug checks) and the per-block digests of all hit lists must agree. Deferred to the thorough tier: {:?}. Non-trivial = own-sweep searches returning at least one hit (counted by the sweep itself).",
            self.subs.iter().map(|s| s.0).collect::<Vec<_>>(),
            self.deferred
        )
    }
    fn assumptions(&self) -> Vec<String> {
        vec![
            "limits > 2^16, ratings >= 2^31 and 32-bit usize (wasm32) are outside the domain".into(),
            "'hang' is a wall-clock judgement: a block that exceeds its budget is re-run alone and must time out again".into(),
            "domains of C15-C19 that drive private types or produce no hit lists run in the checked build only; everything that returns hits is digested in both builds".into(),
            "the other checks' thorough-bound domains are not repeated here: in those, 'record is returned' checks (C03, C04, C13, C14) and differential checks report panics themselves, the others print NOTE lines and count undecided_panics".into(),
        ]
    }
}
