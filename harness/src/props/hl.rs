//! Shared sweep for the highlight properties C02, C05, C09: (language, store, query) over the character
//! families and the word-level domain, searched with sentinel markers.

use crate::doms::*;
use crate::engine::*;
use crate::refs::*;
use crate::util::*;
use lucid_suggest_core::tokenization::tokenize_record;
use lucid_suggest_core::TextOwn;

pub struct HlSet {
    pub name: String,
    pub l: L,
    pub titles: Titles,
    pub queries: Vec<String>,
    /// queries are derived from each title instead of taken from `queries`
    pub derived: bool,
    pub block: u64,
}

impl HlSet {
    pub fn queries_for(&self, title: &str) -> std::borrow::Cow<'_, [String]> {
        if self.derived {
            std::borrow::Cow::Owned(derived_queries(self.l, title))
        } else {
            std::borrow::Cow::Borrowed(&self.queries[..])
        }
    }
}

/// Queries a user could type for this title: every prefix of every word, each word finished, the whole
/// title, adjacent words run together and swapped, each longer word with its second letter dropped, and
/// the empty query.
pub fn derived_queries(l: L, title: &str) -> Vec<String> {
    let mut out: Vec<String> = vec![String::new(), title.to_string()];
    let Some(t) = tok_record(l, title) else { return out };
    let words: Vec<String> = t.words.iter().map(|w| t.source[w.slice.0..w.slice.1].iter().filter(|c| **c != '\0').collect()).collect();
    for (i, w) in words.iter().enumerate() {
        let cs: Vec<char> = w.chars().collect();
        for k in 1..=cs.len() {
            out.push(cs[..k].iter().collect());
        }
        out.push(format!("{} ", w));
        if cs.len() >= 5 {
            let mut v = cs.clone();
            v.remove(1);
            out.push(v.iter().collect());
        }
        if i + 1 < words.len() {
            out.push(format!("{}{}", w, words[i + 1]));
            out.push(format!("{} {}", words[i + 1], w));
            out.push(format!("{} {}", w, &words[i + 1].chars().take(2).collect::<String>()));
        }
    }
    out.sort();
    out.dedup();
    out
}

pub struct Bounds {
    pub t: u32,
    pub q: u32,
    pub words: u32,
    pub fams: Vec<u8>,
    /// real long titles (e-commerce corpus, plain and decorated with accents / odd characters) with derived queries
    pub corpus: bool,
    /// one tiny family per composable (base, mark) pair of each language
    pub pairs: bool,
}

pub fn hl_sets(b: &Bounds) -> Vec<HlSet> {
    let mut sets = Vec::new();
    for l in LANGS {
        for f in &b.fams {
            let (name, fam) = match f {
                1 => ("F1", fam1(l)),
                2 => ("F2", fam2(l)),
                3 => ("F3", fam3(l)),
                4 => ("F4", fam4(l)),
                5 => ("F5", fam5(l)),
                7 => ("F7", fam7(l)),
                8 => ("F8", fam8(l)),
                9 => ("F9", fam9(l)),
                _ => ("F6", fam6(l)),
            };
            // larger alphabets get one character less so that every family costs about the same
            let shrink = if fam.len() >= 6 { 1 } else { 0 };
            let (t, q) = (b.t - shrink, b.q - shrink.min(b.q - 1));
            let queries = all_strings(&fam, 0, q);
            let nq = queries.len() as u64;
            sets.push(HlSet { name: format!("{}:T<={}xQ<={}", name, t, q), l, titles: Titles::Chars { fam, lo: 0, hi: t }, queries, derived: false, block: (100_000 / nq.max(1)).clamp(1, 2000) });
        }
        if b.words > 0 {
            let lex = lex_strings(l);
            let queries = word_queries(&lex, 2);
            let nq = queries.len() as u64;
            sets.push(HlSet { name: format!("lexicon:T<={}w x Q<=2w(all prefixes)", b.words), l, titles: Titles::Words { lex, maxw: b.words }, queries, derived: false, block: (100_000 / nq.max(1)).clamp(1, 2000) });
        }
    }
    if b.pairs {
        // every composable pair of the language on its own (C02: 'accent sequences the language knows how to compose appear composed')
        for l in LANGS {
            for (bs, m, _) in crate::refs::frozen_inventory(l) {
                let c = if l.is_cyrillic() { 'т' } else { 't' };
                let fam = vec![bs, m, c, ' '];
                let queries = all_strings(&fam, 0, 2);
                sets.push(HlSet { name: format!("pair U+{:04X}+U+{:04X}:T<=3xQ<=2", bs as u32, m as u32), l, titles: Titles::Chars { fam, lo: 0, hi: 3 }, queries, derived: false, block: 100 });
            }
        }
    }
    if b.corpus {
        let titles = corpus_ecommerce_titles();
        for l in LANGS {
            let mut v = long_word_titles(l);
            v.push(long_text(30, 7));
            for (i, t) in titles.iter().enumerate() {
                v.push(t.clone());
                v.push(super::c15::decorate(l, t, 1 + (i as u64 % 3)));
            }
            sets.push(HlSet { name: "long words 19..36 letters + e-commerce titles (plain + decorated) x derived queries".into(), l, titles: Titles::List(v), queries: Vec::new(), derived: true, block: 200 });
        }
    }
    sets
}

pub fn hl_doms(sets: &[HlSet]) -> Vec<Dom> {
    sets.iter().map(|s| Dom::new(format!("{}/{}", s.l.tag(), s.name), s.titles.len(), s.block)).collect()
}

/// A deterministic companion title for multi-record stores.
pub fn companion(set: &HlSet, idx: u64, k: u64) -> String {
    let n = set.titles.len();
    set.titles.get((idx.wrapping_mul(7).wrapping_add(3 + 11 * k)) % n)
}

pub fn tok_record(l: L, title: &str) -> Option<TextOwn> {
    guard(|| with_lang(l, |lang| tokenize_record(title, lang))).ok()
}

/// Word boundaries of a stored title in the coordinates of the returned (NUL-free) title.
pub struct WordMap {
    pub words: Vec<(usize, usize)>,
    pub padded: Vec<(usize, usize)>,
    pub pos: Vec<usize>,
}

pub fn word_map(t: &TextOwn) -> WordMap {
    let pos = unpadded_positions(&t.source);
    WordMap { words: t.words.iter().map(|w| (pos[w.slice.0], pos[w.slice.1])).collect(), padded: t.words.iter().map(|w| w.slice).collect(), pos }
}

pub fn has_alnum(q: &str) -> bool {
    q.chars().any(|c| c.is_alphanumeric())
}
