//! Shared sweep for the highlight properties C02, C05, C09: (language, store, query) over the character
//! families and the word-level domain, searched with sentinel markers.

use crate::doms::*;
use crate::engine::*;
use crate::refs::*;
use crate::util::*;
use lucid_suggest_core::tokenization::tokenize_record;
use lucid_suggest_core::TextOwn;

pub struct HlSet {
    pub name: String,
    pub l: L,
    pub titles: Titles,
    pub queries: Vec<String>,
    pub block: u64,
}

pub struct Bounds {
    pub t: u32,
    pub q: u32,
    pub words: u32,
    pub fams: Vec<u8>,
}

pub fn hl_sets(b: &Bounds) -> Vec<HlSet> {
    let mut sets = Vec::new();
    for l in LANGS {
        for f in &b.fams {
            let (name, fam) = match f {
                1 => ("F1", fam1(l)),
                2 => ("F2", fam2(l)),
                3 => ("F3", fam3(l)),
                4 => ("F4", fam4(l)),
                5 => ("F5", fam5(l)),
                _ => ("F6", fam6(l)),
            };
            // larger alphabets get one character less so that every family costs about the same
            let shrink = if fam.len() >= 6 { 1 } else { 0 };
            let (t, q) = (b.t - shrink, b.q - shrink.min(b.q - 1));
            let queries = all_strings(&fam, 0, q);
            let nq = queries.len() as u64;
            sets.push(HlSet { name: format!("{}:T<={}xQ<={}", name, t, q), l, titles: Titles::Chars { fam, lo: 0, hi: t }, queries, block: (100_000 / nq.max(1)).clamp(1, 2000) });
        }
        if b.words > 0 {
            let lex = lex_strings(l);
            let queries = word_queries(&lex, 2);
            let nq = queries.len() as u64;
            sets.push(HlSet { name: format!("lexicon:T<={}w x Q<=2w(all prefixes)", b.words), l, titles: Titles::Words { lex, maxw: b.words }, queries, block: (100_000 / nq.max(1)).clamp(1, 2000) });
        }
    }
    sets
}

pub fn hl_doms(sets: &[HlSet]) -> Vec<Dom> {
    sets.iter().map(|s| Dom::new(format!("{}/{}", s.l.tag(), s.name), s.titles.len(), s.block)).collect()
}

/// A deterministic companion title for multi-record stores.
pub fn companion(set: &HlSet, idx: u64, k: u64) -> String {
    let n = set.titles.len();
    set.titles.get((idx.wrapping_mul(7).wrapping_add(3 + 11 * k)) % n)
}

pub fn tok_record(l: L, title: &str) -> Option<TextOwn> {
    guard(|| with_lang(l, |lang| tokenize_record(title, lang))).ok()
}

/// Word boundaries of a stored title in the coordinates of the returned (NUL-free) title.
pub struct WordMap {
    pub words: Vec<(usize, usize)>,
    pub padded: Vec<(usize, usize)>,
    pub pos: Vec<usize>,
}

pub fn word_map(t: &TextOwn) -> WordMap {
    let pos = unpadded_positions(&t.source);
    WordMap { words: t.words.iter().map(|w| (pos[w.slice.0], pos[w.slice.1])).collect(), padded: t.words.iter().map(|w| w.slice).collect(), pos }
}

pub fn has_alnum(q: &str) -> bool {
    q.chars().any(|c| c.is_alphanumeric())
}
