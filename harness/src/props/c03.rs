//! C03 — search-as-you-type: any prefix of any title word finds the record.

use super::returned::*;
use crate::doms::*;
use crate::engine::*;
use crate::util::*;
use lucid_suggest_core::TextOwn;

pub struct C03 {
    sets: Vec<TitleSet>,
}

pub fn embed_contexts(l: L, words: &[String]) -> Vec<String> {
    // `w`, `x w`, `w x`, `x w y`, `f w`
    let (x, y, f) = match l {
        L::Ru => ("щуп", "цех", "на"),
        L::De => ("quarz", "jux", "der"),
        L::Fr => ("quartz", "jury", "le"),
        L::Es => ("quark", "juez", "el"),
        L::Pt => ("quark", "juiz", "de"),
        _ => ("quartz", "jivy", "the"),
    };
    let mut out = Vec::with_capacity(words.len() * 5);
    for w in words {
        out.push(w.clone());
        out.push(format!("{} {}", x, w));
        out.push(format!("{} {}", w, x));
        out.push(format!("{} {} {}", x, w, y));
        out.push(format!("{} {}", f, w));
    }
    out
}

impl C03 {
    pub fn new(tier: Tier) -> C03 {
        let mut sets = Vec::new();
        let mut corpus = corpus_en_words();
        corpus.extend(corpus_ecommerce_tokens());
        for l in LANGS {
            sets.push(TitleSet { name: "corpus-words-embedded".into(), l, titles: Titles::List(embed_contexts(l, &corpus)), nctx: 1, block: 1500 });
            sets.push(TitleSet { name: "lexicon-titles<=3w".into(), l, titles: Titles::Words { lex: lex_strings(l), maxw: 3 }, nctx: 3, block: 300 });
            sets.push(TitleSet { name: "lexicon-titles<=2w in a crowd of 25".into(), l, titles: Titles::Words { lex: lex_strings(l), maxw: 2 }, nctx: 4, block: 20 });
            sets.push(TitleSet { name: "lexicon words in a crowd of 120 (limit 120, more than 100 records share the typed prefix)".into(), l, titles: Titles::Words { lex: lex_strings(l), maxw: 1 }, nctx: 5, block: 2 });
            sets.push(TitleSet { name: "one word per compose / reduce table row of every language, at 4 positions".into(), l, titles: Titles::List(inventory_word_titles(l)), nctx: 2, block: 100 });
            sets.push(TitleSet { name: "long words 19..36 letters".into(), l, titles: Titles::List(long_word_titles(l)), nctx: 4, block: 4 });
            sets.push(TitleSet { name: "function-word prefix pairs: titles<=4w".into(), l, titles: Titles::Words { lex: fw_prefix_lexicon(l), maxw: tier.pick(3, 4) }, nctx: 2, block: 200 });
            sets.push(TitleSet { name: format!("F1<={}", tier.pick(6, 8)), l, titles: Titles::Chars { fam: fam1(l), lo: 0, hi: tier.pick(6, 8) }, nctx: 3, block: 400 });
            sets.push(TitleSet { name: format!("F2<={}", tier.pick(5, 6)), l, titles: Titles::Chars { fam: fam2(l), lo: 0, hi: tier.pick(5, 6) }, nctx: 2, block: 400 });
            sets.push(TitleSet { name: format!("F4<={}", tier.pick(6, 7)), l, titles: Titles::Chars { fam: fam4(l), lo: 0, hi: tier.pick(6, 7) }, nctx: 2, block: 400 });
            sets.push(TitleSet { name: format!("F5<={}", tier.pick(5, 6)), l, titles: Titles::Chars { fam: fam5(l), lo: 0, hi: tier.pick(5, 6) }, nctx: 2, block: 400 });
            sets.push(TitleSet { name: format!("F7-numerics<={}", tier.pick(5, 6)), l, titles: Titles::Chars { fam: fam7(l), lo: 0, hi: tier.pick(5, 6) }, nctx: 1, block: 400 });
            sets.push(TitleSet { name: format!("F3<={}", tier.pick(5, 6)), l, titles: Titles::Chars { fam: fam3(l), lo: 0, hi: tier.pick(5, 6) }, nctx: 1, block: 400 });
            sets.push(TitleSet { name: format!("F6-words<={}", tier.pick(6, 8)), l, titles: Titles::Chars { fam: fam6(l), lo: 1, hi: tier.pick(6, 8) }, nctx: 1, block: 2000 });
        }
        C03 { sets }
    }
}

fn gen(l: L, _title: &str, tok: &TextOwn, cx: &mut Cx) -> Queries {
    let mut out: Queries = Vec::new();
    let mut seen: Vec<String> = Vec::new();
    for w in 0..tok.words.len() {
        let chars = word_chars(tok, w).to_vec();
        let source = word_source(tok, w).to_vec();
        let partial_stem = tok.words[w].stem < chars.len();
        for k in 1..=chars.len() {
            if !chars[k - 1].is_alphanumeric() {
                continue;
            }
            // the prefix of the normalised word ...
            let qn: String = chars[..k].iter().collect();
            // ... and the same prefix as the user finds it in the original title
            let qs: String = source[..k].iter().filter(|c| **c != '\0').collect();
            for (q, kind) in [(qn.clone(), "normalised-prefix"), (qs, "source-prefix")] {
                if kind == "source-prefix" && q == qn {
                    continue;
                }
                if seen.contains(&q) {
                    continue;
                }
                // precondition: the query tokeniser reads the typed text as exactly that prefix
                let ok = match tokq(l, &q) {
                    Some(t) => {
                        t.words.len() == 1 && {
                            let qc = word_chars(&t, 0);
                            qc.len() <= chars.len() && qc == &chars[..qc.len()] && qc.last().map(|c| c.is_alphanumeric()).unwrap_or(false)
                        }
                    }
                    None => true,
                };
                if !ok {
                    // the only legitimate reason: the cut runs next to a free-standing combining mark (the typed
                    // text then ends in, or the title goes on with, a mark that composes differently once cut off).
                    // Anywhere else the tokeniser must read a typed prefix of a normalised word as that prefix.
                    let mark = |c: &char| ('\u{300}'..='\u{36f}').contains(c);
                    let near_mark = q.chars().any(|c| mark(&c)) || source.iter().any(mark) || chars.iter().any(mark);
                    if near_mark {
                        cx.skip_pre();
                        continue;
                    }
                    cx.class("typed-prefix-read-differently");
                }
                seen.push(q.clone());
                out.push((q, kind, k < chars.len() || partial_stem));
            }
        }
    }
    out
}

impl Prop for C03 {
    fn doms(&self) -> Vec<Dom> {
        doms_of(&self.sets)
    }
    fn run(&self, dom: usize, idx: u64, cx: &mut Cx) {
        run_returned("C03", &self.sets[dom], idx, cx, &gen);
    }
    fn abort_is_violation(&self) -> bool {
        true
    }
    fn rule(&self) -> String {
        "sweep: every title of every domain x every store context (|store| <= limit: alone / behind an identical better-rated record / with two distractors) x every word of the public tokenisation x every prefix length ending in a letter or digit, typed as the normalised prefix and (when different) as the prefix of the original spelling. Non-trivial = proper prefix or a word whose stem is shorter than the word, counted once per (title, query) in the first context.".into()
    }
    fn assumptions(&self) -> Vec<String> {
        vec![
            "titles are limited to the listed alphabets / corpora and lengths; stores to the three listed contexts".into(),
            "a prefix is skipped (counted under skipped_by_precondition) when the query tokeniser does not read the typed text as one word that is a prefix of the title word (only next to free-standing combining marks)".into(),
        ]
    }
}
