//! Shared driver for the "the record is returned" properties C03, C04, C13, C14: stores with
//! |store| <= limit holding the target record; every query produced by the property's generator must
//! return the target id.  A panic counts as "not returned" (DESIGN.md §6 C01, division of labour).

use crate::doms::*;
use crate::engine::*;
use crate::util::*;
use lucid_suggest_core::tokenization::tokenize_record;
use lucid_suggest_core::TextOwn;
use serde_json::json;

pub struct TitleSet {
    pub name: String,
    pub l: L,
    pub titles: Titles,
    pub nctx: usize,
    pub block: u64,
}

pub fn doms_of(sets: &[TitleSet]) -> Vec<Dom> {
    sets.iter().map(|s| Dom::new(format!("{}/{}", s.l.tag(), s.name), s.titles.len(), s.block)).collect()
}

/// (query, kind, non-trivial?)
pub type Queries = Vec<(String, &'static str, bool)>;

pub fn run_returned(prop: &str, set: &TitleSet, idx: u64, cx: &mut Cx, gen: &dyn Fn(L, &str, &TextOwn, &mut Cx) -> Queries) {
    let l = set.l;
    let title = set.titles.get(idx);
    let tok = match cx.call(|| format!("tokenize_record lang={} title={:?}", l.tag(), title), || with_lang(l, |lang| tokenize_record(&title, lang))) {
        Ok(t) => t,
        Err(p) => {
            // adding the record would panic: it cannot be "returned" by anything
            cx.eval();
            let sig = format!("{}:panic-while-adding:{}", prop, p.sig());
            cx.fail(&sig, || json!({"lang": l.tag(), "title": title, "panic": p.text()}));
            return;
        }
    };
    let queries = gen(l, &title, &tok, cx);
    if queries.is_empty() {
        return;
    }
    for (ci, (recs, limit)) in contexts(l, &title, set.nctx).into_iter().enumerate() {
        let mut st = match cx.build(l, &recs, Some(limit), None) {
            Ok(st) => st,
            Err(p) => {
                let sig = format!("{}:panic-while-adding:{}", prop, p.sig());
                cx.fail(&sig, || json!({"lang": l.tag(), "records": recs, "panic": p.text()}));
                return;
            }
        };
        cx.state();
        for (q, kind, nontrivial) in &queries {
            cx.eval();
            cx.validated();
            let res = cx.search(&mut st, q);
            let found = match &res {
                Ok(h) => h.iter().any(|x| x.0 == TARGET_ID),
                Err(_) => false,
            };
            if found {
                cx.class(kind);
                if *nontrivial && ci == 0 {
                    cx.nontrivial();
                }
                if ci == 0 && cx.wants_sample() && *nontrivial {
                    cx.sample(|| json!({"lang": l.tag(), "title": title, "query": q, "kind": kind, "returned": true}));
                }
            } else {
                let sig = match &res {
                    Ok(_) => format!("{}:not-returned:{}", prop, kind),
                    Err(p) => format!("{}:not-returned:{}:{}", prop, kind, p.sig()),
                };
                let observed = match &res {
                    Ok(h) => json!(h),
                    Err(p) => json!(format!("panic: {}", p.text())),
                };
                cx.fail(&sig, || {
                    json!({
                        "lang": l.tag(), "ops": ops_json(&recs, Some(limit), None, &[q]), "query_kind": kind,
                        "expected": format!("record id {} among the hits", TARGET_ID), "observed": observed,
                        "unit_test": unit_test_body(l, &recs, Some(limit), None, &[q], &format!("    assert!(hits0.iter().any(|h| h.0 == {}), \"record not returned: {{:?}}\", hits0);\n", TARGET_ID)),
                    })
                });
                if res.is_err() {
                    // the store's scratch state is suspect after a panic: rebuild
                    st = match cx.build(l, &recs, Some(limit), None) {
                        Ok(st) => st,
                        Err(_) => return,
                    };
                }
            }
        }
    }
}

pub fn word_chars(t: &TextOwn, w: usize) -> &[char] {
    let s = t.words[w].slice;
    &t.chars[s.0..s.1]
}
pub fn word_source(t: &TextOwn, w: usize) -> &[char] {
    let s = t.words[w].slice;
    &t.source[s.0..s.1]
}

/// Tokenise a query with the store language; `None` if the tokeniser panics (the search will report it).
pub fn tokq(l: L, q: &str) -> Option<TextOwn> {
    guard(|| with_lang(l, |lang| lucid_suggest_core::tokenize_query(q, lang))).ok()
}
