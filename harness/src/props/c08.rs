//! C08 — documented ranking priorities hold regardless of rating.

use super::hl::tok_record;
use crate::engine::*;
use crate::refs::*;
use crate::util::*;
use lucid_suggest_core::Word;
use serde_json::json;

pub struct Abc {
    pub au: [char; 3],
    pub v: [&'static str; 3],
    pub x: [&'static str; 2],
    pub tails: [&'static str; 4],
    pub sx: [char; 2],
    pub xf: &'static str,
}

pub fn abc(l: L) -> Abc {
    if l.is_cyrillic() {
        Abc { au: ['а', 'б', 'т'], v: ["гокон", "кногок", "огконгок"], x: ["миним", "лилим"], tails: ["с", "е", "ий", "зз"], sx: ['ж', 'щ'], xf: "жщжщ" }
    } else {
        Abc { au: ['a', 'b', 't'], v: ["gokon", "knogok", "ogkongok"], x: ["minim", "lilim"], tails: ["s", "e", "ing", "zz"], sx: ['q', 'z'], xf: "zqzq" }
    }
}

pub const RATINGS: [usize; 3] = [0, 1, (1 << 31) - 1];

pub struct C08 {
    tier: Tier,
    fw: Vec<Vec<String>>,
}

impl C08 {
    pub fn new(tier: Tier) -> C08 {
        // function words: the fixed (frozen) list, restricted to entries that are one token; whether the
        // current tree still treats them as function words is exactly what rule 7 observes
        let fw = LANGS
            .iter()
            .map(|l| {
                frozen_function_words(*l)
                    .iter()
                    .filter(|w| !w.chars().any(|c| crate::refs::is_separator(c) || c == '\''))
                    .map(|w| w.to_string())
                    .collect()
            })
            .collect();
        C08 { tier, fw }
    }
    fn ulen(&self) -> (u32, u32) {
        self.tier.pick((5, 6), (5, 7))
    }
    /// thorough: a second u-alphabet with two vowels and two consonants, lengths 5-6
    fn au4(l: L) -> [char; 4] {
        if l.is_cyrillic() { ['а', 'е', 'б', 'т'] } else { ['a', 'e', 'b', 't'] }
    }
}

fn neighbours(u: &[char], abc: &[char; 3]) -> Vec<String> {
    let mut out: Vec<String> = Vec::new();
    let mut push = |v: Vec<char>| {
        let s: String = v.into_iter().collect();
        if s != u.iter().collect::<String>() && !out.contains(&s) {
            out.push(s);
        }
    };
    for i in 0..u.len() {
        for &c in abc {
            if c != u[i] {
                let mut v = u.to_vec();
                v[i] = c;
                push(v);
            }
        }
        let mut v = u.to_vec();
        v.remove(i);
        push(v);
        if i + 1 < u.len() && u[i] != u[i + 1] {
            let mut v = u.to_vec();
            v.swap(i, i + 1);
            push(v);
        }
    }
    for i in 0..=u.len() {
        for &c in abc {
            let mut v = u.to_vec();
            v.insert(i, c);
            push(v);
        }
    }
    out
}

/// `A` must be present and before `B`, for every rating pair of `ratings` and both insertion orders.
fn before(cx: &mut Cx, l: L, rule: &'static str, a: &str, b: &str, q: &str, ratings: &[(usize, usize)]) {
    before_in(cx, l, rule, a, b, q, ratings, 1, None)
}

/// The same, with `copies` copies of B in the store and an explicit limit: with limit 2 and four copies of B the
/// winner has to survive the top-k selection as well (A present and before every B that is returned).
fn before_in(cx: &mut Cx, l: L, rule: &'static str, a: &str, b: &str, q: &str, ratings: &[(usize, usize)], copies: usize, limit: Option<usize>) {
    for &(ra, rb) in ratings {
        for order in 0..2 {
            let mut recs: Vec<Rec> = Vec::new();
            if order == 0 {
                recs.push(rec(1, a, ra));
            }
            for c in 0..copies {
                recs.push(rec(2 + c, b, rb));
            }
            if order == 1 {
                recs.push(rec(1, a, ra));
            }
            cx.eval();
            let Some(mut st) = cx.build_noted(l, &recs, limit, None) else { return };
            let hits = match cx.search(&mut st, q) {
                Ok(h) => h,
                Err(p) => {
                    cx.undecided(&p, || format!("lang={} records={:?} query={:?}", l.tag(), recs, q));
                    return;
                }
            };
            cx.validated();
            cx.state();
            let order_ids = ids(&hits);
            let (pa, pb) = (order_ids.iter().position(|x| *x == 1), order_ids.iter().position(|x| *x >= 2));
            let ok = match (pa, pb) {
                (Some(pa), Some(pb)) => pa < pb,
                (Some(_), None) => true,
                _ => false,
            };
            if ok {
                if pb.is_some() && rb > ra {
                    cx.nontrivial();
                }
                cx.class(match (pb.is_some(), rb > ra) {
                    (true, true) => "both-returned:better-rated-loser",
                    (true, false) => "both-returned",
                    (false, _) => "only-A-returned",
                });
                if cx.wants_sample() && pb.is_some() && rb > ra {
                    cx.sample(|| json!({"lang": l.tag(), "rule": rule, "records": recs, "query": q, "hits": hits}));
                }
            } else {
                let sig = format!("C08:{}", rule);
                cx.fail(&sig, || {
                    json!({"lang": l.tag(), "rule": rule, "ops": ops_json(&recs, limit, None, &[q]), "expected": format!("record 1 ({:?}) present and before record 2 ({:?})", a, b), "observed": hits,
                           "unit_test": unit_test_body(l, &recs, limit, None, &[q], "    let pos = |id| hits0.iter().position(|h| h.0 == id);\n    assert!(pos(1).is_some() && pos(2).map(|p| pos(1).unwrap() < p).unwrap_or(true), \"{:?}\", hits0);\n")})
                });
                return;
            }
        }
    }
}

fn all_ratings() -> Vec<(usize, usize)> {
    let mut v = Vec::new();
    for a in RATINGS {
        for b in RATINGS {
            v.push((a, b));
        }
    }
    v
}

impl Prop for C08 {
    fn doms(&self) -> Vec<Dom> {
        let (lo, hi) = self.ulen();
        let mut d = Vec::new();
        for l in LANGS {
            d.push(Dom::new(format!("{}/R1-R6: u in words {}..{} over 3 letters", l.tag(), lo, hi), seqs_len(3, lo, hi), 8));
        }
        for (i, l) in LANGS.iter().enumerate() {
            d.push(Dom::new(format!("{}/R7: every function word of the language", l.tag()), self.fw[i].len() as u64, 4));
        }
        if self.tier == Tier::Thorough {
            for l in LANGS {
                d.push(Dom::new(format!("{}/R1-R6: u in words 5..6 over 4 letters (2 vowels, 2 consonants)", l.tag()), seqs_len(4, 5, 6), 8));
            }
        }
        d
    }
    fn run(&self, dom: usize, idx: u64, cx: &mut Cx) {
        let all = all_ratings();
        if dom >= LANGS.len() && dom < 2 * LANGS.len() {
            // R7
            let l = LANGS[dom - LANGS.len()];
            let ab = abc(l);
            let f = &self.fw[dom - LANGS.len()][idx as usize];
            let cap = |s: &str| {
                let mut c = s.chars();
                match c.next() {
                    Some(h) => h.to_uppercase().collect::<String>() + c.as_str(),
                    None => String::new(),
                }
            };
            let mut suffixes: Vec<String> = Vec::new();
            for a in ab.sx {
                suffixes.push(a.to_string());
                for b in ab.sx {
                    suffixes.push(format!("{}{}", a, b));
                }
            }
            for s in suffixes {
                let content = format!("{}{}", f, s);
                // f+s must be a single non-function token
                match tok_record(l, &content) {
                    Some(t) if t.words.len() == 1 && !t.words[0].is_function() => {}
                    _ => {
                        cx.skip_pre();
                        continue;
                    }
                }
                for title_f in [f.clone(), format!("{} {}", f, ab.xf), format!("{} {}", ab.xf, f), cap(f), format!("{} {}", cap(f), ab.xf)] {
                    before(cx, l, "R7:content-word-starting-with-f-before-function-word-f", &content, &title_f, f, &all);
                }
            }
            return;
        }
        let four = dom >= 2 * LANGS.len();
        let l = LANGS[dom % LANGS.len()];
        let ab = abc(l);
        let (lo, hi) = self.ulen();
        let u = if four { string_at(&Self::au4(l), 5, 6, idx) } else { string_at(&ab.au, lo, hi, idx) };
        let uc = chars(&u);
        // u must be a single non-function token (always true for these alphabets; checked, not assumed)
        match tok_record(l, &u) {
            Some(t) if t.words.len() == 1 && !t.words[0].is_function() => {}
            _ => {
                cx.skip_pre();
                return;
            }
        }
        let qforms = |q: &str| vec![q.to_string(), format!("{} ", q)];
        // R1: exact word before the same word with a typo
        let nb = if four { let a = Self::au4(l); let mut v = neighbours(&uc, &[a[0], a[2], a[3]]); v.extend(neighbours(&uc, &[a[1], a[2], a[3]])); v.sort(); v.dedup(); v } else { neighbours(&uc, &ab.au) };
        for n in nb {
            for q in qforms(&u) {
                before(cx, l, "R1:exact-before-typo", &u, &n, &q, &all);
            }
        }
        let v = ab.v[(idx % 3) as usize];
        let x = ab.x[(idx % 2) as usize];
        // R2: both query words before only one
        for b in [u.clone(), v.to_string(), format!("{} {}", u, x), format!("{} {}", x, v)] {
            for q in qforms(&format!("{} {}", u, v)) {
                before(cx, l, "R2:both-words-before-one", &format!("{} {}", u, v), &b, &q, &all);
            }
        }
        // R3: 'u' before 'u'+tail, for the full word and every typed prefix
        for tail in ab.tails {
            let longer = format!("{}{}", u, tail);
            for k in 1..=uc.len() {
                let q: String = uc[..k].iter().collect();
                before(cx, l, "R3:word-before-word-with-trailing-letters", &u, &longer, &q, &all);
            }
            before(cx, l, "R3:word-before-word-with-trailing-letters", &u, &longer, &format!("{} ", u), &all);
        }
        // R4: 'u v x' before 'u x v' for the query 'u v'
        for q in qforms(&format!("{} {}", u, v)) {
            before(cx, l, "R4:adjacent-before-separated", &format!("{} {} {}", u, v, x), &format!("{} {} {}", u, x, v), &q, &all);
        }
        // R5: 'u x' before 'x u' for the query 'u'
        for q in qforms(&u) {
            before(cx, l, "R5:earlier-position-first", &format!("{} {}", u, x), &format!("{} {}", x, u), &q, &all);
        }
        // the winner must also survive the cut to the best `limit`: four copies of the loser, limit 2 and 1
        // (a rating is a usize: the upper half of its range is part of "whatever the ratings")
        let half = 1usize << (usize::BITS - 1);
        let extremes = [(0usize, RATINGS[2]), (RATINGS[2], 0), (0, usize::MAX), (usize::MAX, 0), (half + 100, 200), (200, half + 100)];
        before_in(cx, l, "R5:earlier-position-first(limit 2, 4 copies of the other title)", &format!("{} {}", u, x), &format!("{} {}", x, u), &u, &extremes, 4, Some(2));
        before_in(cx, l, "R3:word-before-word-with-trailing-letters(limit 2, 4 copies of the other title)", &u, &format!("{}{}", u, ab.tails[0]), &u, &extremes, 4, Some(2));
        before_in(cx, l, "R6:identical-titles-higher-rating-first(limit 1, 4 copies of the lower-rated title)", &u, &u, &u, &[(RATINGS[2], 0), (1, 0), (half, half - 1), (usize::MAX, 200)], 4, Some(1));
        // R6: identical titles: higher rating first; equal rating: 'u' before 'u x'
        let higher: Vec<(usize, usize)> = vec![(1, 0), (RATINGS[2], 0), (RATINGS[2], 1), (RATINGS[2], RATINGS[2] - 1), (half, half - 1), (half + 100, 200), (usize::MAX, 0), (usize::MAX, half)];
        for q in qforms(&u) {
            before(cx, l, "R6:identical-titles-higher-rating-first", &u, &u, &q, &higher);
            before(cx, l, "R6:identical-titles-higher-rating-first", &format!("{} {}", u, x), &format!("{} {}", u, x), &q, &higher);
            let equal: Vec<(usize, usize)> = RATINGS.iter().map(|r| (*r, *r)).collect();
            before(cx, l, "R6:equal-rating-shorter-title-first", &u, &format!("{} {}", u, x), &q, &equal);
        }
    }
    fn rule(&self) -> String {
        "sweep over two-record stores: u = every word of the listed lengths over a 3-letter alphabet (1 vowel, 2 consonants of the language's script), v / x from disjoint alphabets; every rating pair from {0, 1, 2^31-1}^2 and both insertion orders (R3 / R5 / R6 also with ratings in the upper half of the usize range: 2^63, 2^63+100, usize::MAX against small ones). R1 u vs every one-edit neighbour of u over the alphabet; R2 'u v' vs {u, v, 'u x', 'x v'}; R3 u vs u+tail for 4 tails, query = every prefix of u and the finished word; R4 'u v x' vs 'u x v'; R5 'u x' vs 'x u'; R6 identical titles / equal ratings; R7 every one-token function word f of the language (frozen list, re-validated through the public tokeniser) vs f+suffix for 6 suffixes, f alone / 'f x' / 'x f', lower-case and capitalised. Queries are typed unfinished and finished (trailing space). Non-trivial = both records returned and the loser has the strictly higher rating.".into()
    }
    fn assumptions(&self) -> Vec<String> {
        vec![
            "u limited to 3-letter alphabets and lengths 5..7; v, x fixed representatives; ratings limited to {0, 1, 2^31-1}, adjacent pairs and pairs reaching into the upper half of the usize range (the rating enters ranking through one score component)".into(),
            "a search that panics is outside this statement (counted under undecided_panics, inside C01's domain)".into(),
            "nothing is demanded about the relative order of score components the statement does not mention (e.g. tails vs gaps)".into(),
        ]
    }
}
