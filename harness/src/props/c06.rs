//! C06 — the hit list is each record's own verdict, cut to the best `limit`.
//! C07 shares the store domains (see c07.rs).

use crate::doms::*;
use crate::engine::*;
use crate::util::*;
use serde_json::json;

pub struct MultiSet {
    pub l: L,
    pub name: String,
    pub menu: Vec<String>,
    pub lo: u32,
    pub hi: u32,
    pub queries: Vec<String>,
    pub limits: Option<Vec<usize>>, // None: 0..|store|+2
    pub distinct_ratings: bool,
    /// ratings moved to the top of the usize range (distinct, straddling 2^63)
    pub huge_ratings: bool,
    /// ratings by position taken from this table instead (mixes ordinary ratings with ratings beyond 2^63)
    pub ratings: Option<Vec<usize>>,
    pub block: u64,
}

/// Ratings by position: distinct, and deliberately not monotone in the insertion order.
/// positions 0 and 1 differ in the lowest bit only (2k against 2k + 1); the rest differ in higher bits too
pub const RATINGS: [usize; 12] = [50, 51, 70, 10, 110, 30, 80, 20, 100, 60, 40, 120];

pub fn store_at(set: &MultiSet, idx: u64) -> Vec<Rec> {
    seq_at(set.menu.len() as u64, set.lo, set.hi, idx)
        .into_iter()
        .enumerate()
        .map(|(i, t)| {
            let r = if set.distinct_ratings { RATINGS[i % 12] } else { [7, 7, 3, 7, 3][i % 5] };
            let r = match &set.ratings {
                Some(table) => table[i % table.len()],
                None => if set.huge_ratings { (1usize << 63) - 60 + r } else { r },
            };
            rec(100 + i, &set.menu[t], r)
        })
        .collect()
}

pub fn multi_sets(tier: Tier) -> Vec<MultiSet> {
    let mut sets = Vec::new();
    for l in LANGS {
        let f1 = fam1(l);
        let s = sym(l);
        let full = tier == Tier::Thorough || matches!(l, L::None | L::Ru);
        // (i) all stores of <= 3 records over short F1 titles
        let mut menu = all_strings(&f1, 0, 2);
        for extra in [format!("{0}{1}{0}", s.v, s.c), format!("{0}{0}{1}", s.v, s.c), format!("{0}{1}{1}", s.v, s.c), format!("{0}-{0}{1}", s.v, s.c), format!("{0}{1} {0}", s.v, s.c), format!("{1}{0}{1}{0}", s.v, s.c)] {
            menu.push(extra);
        }
        if tier == Tier::Thorough && l == L::None {
            // the full T<=3(F1) menu (86 titles, 6.4e5 stores) once; the other languages keep the 27-title menu
            menu = all_strings(&f1, 0, 3);
            menu.push(format!("{1}{0}{1}{0}", s.v, s.c));
        }
        if full {
            sets.push(MultiSet { l, name: format!("stores<=3 over {} F1 titles", menu.len()), menu, lo: 0, hi: 3, queries: all_strings(&f1, 0, 3), limits: None, distinct_ratings: true, huge_ratings: false, ratings: None, block: 30 });
        }
        // word-level menu: 12 titles
        let lex = lex_strings(l);
        let mut wmenu: Vec<String> = lex.clone();
        wmenu.push(format!("{} {}", lex[0], lex[4]));
        wmenu.push(format!("{}-{}", lex[7], lex[8]));
        sets.push(MultiSet { l, name: "stores<=3 over 12 lexicon titles".into(), menu: wmenu.clone(), lo: 0, hi: 3, queries: word_queries(&lex, if full { 2 } else { 1 }), limits: None, distinct_ratings: true, huge_ratings: false, ratings: None, block: 20 });
        // (ii) top-k machinery: 4, 5, 11, 12 records over a 3-title menu, small limits
        let tk: Vec<String> = vec![format!("{0}{1}", s.v, s.c), format!("{0}{1}{0}", s.v, s.c), format!("{1}{0} {0}{1}", s.v, s.c)];
        let tq: Vec<String> = vec![s.v.to_string(), format!("{0}{1}", s.v, s.c), format!("{0}{1}{0}", s.v, s.c), format!("{1}{0}", s.v, s.c), format!("{0}{1}{1}", s.v, s.c)];
        if full {
            sets.push(MultiSet { l, name: "top-k: stores 4..5 over 3 titles".into(), menu: tk.clone(), lo: 4, hi: 5, queries: tq.clone(), limits: Some(vec![0, 1, 2, 3]), distinct_ratings: true, huge_ratings: false, ratings: None, block: 60 });
            let (lo, hi) = tier.pick((8, 8), (11, 12));
            let m = if tier == Tier::Thorough { tk.clone() } else { tk.clone() };
            sets.push(MultiSet { l, name: format!("top-k: stores {}..{} over 3 titles", lo, hi), menu: m, lo, hi, queries: tq.clone(), limits: Some(vec![0, 1, 2, 3]), distinct_ratings: true, huge_ratings: false, ratings: None, block: 300 });
            if tier == Tier::Quick {
                // the candidate cap (10 x limit) needs > 10 records: 11..12 over a 2-title menu
                sets.push(MultiSet { l, name: "top-k: stores 11..12 over 2 titles".into(), menu: tk[..2].to_vec(), lo: 11, hi: 12, queries: tq.clone(), limits: Some(vec![0, 1, 2, 3]), distinct_ratings: true, huge_ratings: false, ratings: None, block: 300 });
            }
        }
        // (iii) equal ratings and duplicate titles: order-free clauses only
        sets.push(MultiSet { l, name: "ties: stores<=4 over 4 titles, equal ratings".into(), menu: vec![tk[0].clone(), tk[1].clone(), tk[0].to_uppercase(), format!("{} {}", tk[1], tk[0])], lo: 0, hi: 4, queries: tq, limits: None, distinct_ratings: false, huge_ratings: false, ratings: None, block: 40 });
    }
    sets
}

/// Stores of three records whose ratings mix ordinary values with values in the upper half of the usize range
/// (every assignment of the three ratings to the titles): a scorer that casts, subtracts or negates ratings wraps
/// for some of them only.
pub fn mixed_rating_sets() -> Vec<MultiSet> {
    let big = 1usize << (usize::BITS - 1);
    let mut sets = Vec::new();
    for (k, table) in [vec![big + 100, 50, 200], vec![usize::MAX, 0, big - 1], vec![big / 2, big + big / 2, 5], vec![big, 1, big + 2]].into_iter().enumerate() {
        for l in [L::None, L::En] {
            let lex = lex_strings(l);
            let menu: Vec<String> = vec![lex[4].clone(), lex[5].clone(), lex[6].clone(), format!("{} {}", lex[4], lex[9])];
            sets.push(MultiSet { l, name: format!("stores of 3 over 4 lexicon titles, ordinary and beyond-2^63 ratings mixed (table {})", k + 1), menu, lo: 3, hi: 3, queries: word_queries(&lex, 1), limits: None, distinct_ratings: true, huge_ratings: true, ratings: Some(table.clone()), block: 10 });
        }
    }
    sets
}

pub struct C06 {
    sets: Vec<MultiSet>,
    /// (language, number of records): stores of about a hundred records, limits around |store|/10
    big: Vec<(L, usize)>,
}

impl C06 {
    pub fn new(tier: Tier) -> C06 {
        let mut big = Vec::new();
        for l in tier.pick(vec![L::None, L::En], LANGS.to_vec()) {
            for n in [99usize, 101, 121, 150] {
                big.push((l, n));
            }
        }
        let mut sets = multi_sets(tier);
        sets.extend(mixed_rating_sets());
        C06 { sets, big }
    }

    /// A store of n records that all share grams with the queries ("mug 17", "metal mug 5", ...), limits from 9 to n:
    /// the same clauses as the small stores.
    fn run_big(&self, l: L, n: usize, cx: &mut Cx) {
        let (w1, w2) = if l.is_cyrillic() { ("кружка", "металл") } else { ("mug", "metal") };
        let recs: Vec<Rec> = (0..n).map(|i| rec(1000 + i, &match i % 3 { 0 => format!("{} {}", w1, i), 1 => format!("{} {} {}", w2, w1, i), _ => format!("{}{}", w1, i) }, (i * 7919) % 1009 + i * 1013)).collect();
        let queries: Vec<String> = vec![w1.chars().take(1).collect(), w1.to_string(), format!("{} {}", w2, w1), format!("{} 1", w1), String::new()];
        let limits: Vec<usize> = vec![9, 10, 11, 12, n / 10, n / 10 + 1, n, n + 2];
        let Ok(mut full) = cx.build(l, &recs, Some(n + 2), None) else { return };
        let mut singles: Vec<St> = Vec::new();
        for r in &recs {
            match cx.build(l, std::slice::from_ref(r), None, None) {
                Ok(s) => singles.push(s),
                Err(_) => return,
            }
        }
        cx.state();
        for q in &queries {
            let mut alone: Vec<Option<String>> = Vec::with_capacity(n);
            for (i, s) in singles.iter_mut().enumerate() {
                match cx.search(s, q) {
                    Ok(h) => alone.push(h.into_iter().find(|x| x.0 == recs[i].0).map(|x| x.1)),
                    Err(_) => return,
                }
            }
            let Ok(unlimited) = cx.search(&mut full, q) else { return };
            cx.eval();
            cx.validated();
            for (i, a) in alone.iter().enumerate() {
                if a.is_some() && !unlimited.iter().any(|h| h.0 == recs[i].0) {
                    cx.fail("C06:hit-on-its-own-missing-from-unlimited-list", || json!({"lang": l.tag(), "store": format!("{} records '{} i' / '{} {} i' / '{}i'", n, w1, w2, w1, w1), "limit": n + 2, "query": q, "missing_record": recs[i], "listed": unlimited.len()}));
                    break;
                }
            }
            for &k in &limits {
                let Ok(mut st) = cx.build(l, &recs, Some(k), None) else { return };
                cx.eval();
                let Ok(hits) = cx.search(&mut st, q) else { return };
                cx.validated();
                let mut ids = ids(&hits);
                ids.sort();
                ids.dedup();
                if hits.len() > k || ids.len() != hits.len() {
                    cx.fail("C06:more-hits-than-limit", || json!({"lang": l.tag(), "records": n, "limit": k, "query": q, "observed": hits.len()}));
                }
                for (id, title) in &hits {
                    let i = id - 1000;
                    if alone.get(i).and_then(|a| a.as_ref()) != Some(title) {
                        cx.fail("C06:hit-differs-from-single-record-store", || json!({"lang": l.tag(), "records": n, "limit": k, "query": q, "record": recs[i], "in_this_store": title, "in_a_store_of_its_own": alone[i]}));
                        break;
                    }
                }
                if n <= 10 * k {
                    let want: Vec<(usize, String)> = unlimited.iter().take(k).cloned().collect();
                    if hits != want {
                        let first = hits.iter().zip(want.iter()).position(|(a, b)| a != b);
                        cx.fail("C06:not-the-first-limit-entries-of-the-unlimited-list", || {
                            json!({"lang": l.tag(), "store": format!("{} records '{} i' / '{} {} i' / '{}i' (ratings distinct)", n, w1, w2, w1, w1), "limit": k, "query": q, "first_difference_at": first, "observed_len": hits.len(), "expected_len": want.len(),
                                   "observed_head": hits.iter().take(5).collect::<Vec<_>>(), "expected_head": want.iter().take(5).collect::<Vec<_>>()})
                        });
                    }
                }
                if !hits.is_empty() && hits.len() < unlimited.len() {
                    cx.nontrivial();
                }
                cx.class(if hits.is_empty() { "big:no-hit" } else if hits.len() < unlimited.len() { "big:truncated" } else { "big:all-hits-fit" });
            }
        }
    }
}

impl Prop for C06 {
    fn doms(&self) -> Vec<Dom> {
        let mut d: Vec<Dom> = self.sets.iter().map(|s| Dom::new(format!("{}/{}", s.l.tag(), s.name), seqs_len(s.menu.len() as u64, s.lo, s.hi), s.block)).collect();
        d.push(Dom::new("big stores: 99 / 101 / 121 / 150 records sharing grams, limits 9..12, n/10, n/10+1, n, n+2", self.big.len() as u64, 1));
        d.push(Dom::new("en/the whole e-commerce corpus as one store (3 285 records), limits 10 and 3: soundness clauses", 3285, 60));
        d
    }
    fn run(&self, dom: usize, idx: u64, cx: &mut Cx) {
        if dom == self.sets.len() {
            let (l, n) = self.big[idx as usize];
            return self.run_big(l, n, cx);
        }
        if dom == self.sets.len() + 1 {
            return self.run_corpus(idx, cx);
        }
        let set = &self.sets[dom];
        let l = set.l;
        let recs = store_at(set, idx);
        let n = recs.len();
        let limits: Vec<usize> = set.limits.clone().unwrap_or_else(|| (0..=n + 2).collect());
        let Ok(mut full) = cx.build(l, &recs, Some(n + 2), None) else { return self.asym(cx, l, &recs, "building the store") };
        // one-record stores, one per record
        let mut singles: Vec<St> = Vec::new();
        for r in &recs {
            match cx.build(l, std::slice::from_ref(r), None, None) {
                Ok(s) => singles.push(s),
                Err(_) => return, // both sides panic: outside this statement
            }
        }
        let mut limited: Vec<(usize, St)> = Vec::new();
        for &k in &limits {
            match cx.build(l, &recs, Some(k), None) {
                Ok(s) => limited.push((k, s)),
                Err(_) => return,
            }
        }
        // the same clauses on ONE store object whose limit is changed in place, ascending then descending:
        // a store with limit k is a store with limit k, whatever its limit was before
        let mut order: Vec<usize> = limits.clone();
        order.extend(limits.iter().rev().skip(1));
        let reused_from = limited.len();
        match cx.build(l, &recs, Some(limits[0]), None) {
            Ok(s) => limited.push((usize::MAX, s)),
            Err(_) => return,
        }
        cx.state();
        for q in &set.queries {
            // every record's own verdict
            let mut alone: Vec<Option<String>> = Vec::with_capacity(n);
            let mut ref_panicked = false;
            for (i, s) in singles.iter_mut().enumerate() {
                match cx.search(s, q) {
                    Ok(h) => alone.push(h.into_iter().find(|x| x.0 == recs[i].0).map(|x| x.1)),
                    Err(_) => {
                        ref_panicked = true;
                        break;
                    }
                }
            }
            let unlimited = cx.search(&mut full, q);
            if ref_panicked || unlimited.is_err() {
                if ref_panicked && unlimited.is_err() {
                    if let Err(p) = &unlimited {
                        cx.undecided(p, || format!("lang={} records={:?} query={:?}", l.tag(), recs, q));
                    }
                } else if let Err(p) = &unlimited {
                    let sig = format!("C06:store-panics-where-single-records-answer:{}", p.sig());
                    cx.fail(&sig, || json!({"lang": l.tag(), "ops": ops_json(&recs, Some(n + 2), None, &[q]), "panic": p.text()}));
                }
                return;
            }
            let unlimited = unlimited.unwrap();
            // the unlimited list contains every record that is a hit on its own
            cx.eval();
            cx.validated();
            for (i, a) in alone.iter().enumerate() {
                if a.is_some() && !unlimited.iter().any(|h| h.0 == recs[i].0) {
                    cx.fail("C06:hit-on-its-own-missing-from-unlimited-list", || {
                        json!({"lang": l.tag(), "ops": ops_json(&recs, Some(n + 2), None, &[q]), "missing_record": recs[i], "observed": unlimited,
                               "unit_test": unit_test_body(l, &recs, Some(n + 2), None, &[q], &format!("    assert!(hits0.iter().any(|h| h.0 == {}));\n", recs[i].0))})
                    });
                }
            }
            // fresh store per limit, then the shared store stepped through `order`
            let mut plan: Vec<(usize, usize)> = (0..reused_from).map(|i| (i, limited[i].0)).collect();
            for &k in &order {
                plan.push((reused_from, k));
            }
            for (si, k) in plan {
                let st = &mut limited[si].1;
                if si == reused_from {
                    st.set_limit(k);
                }
                cx.eval();
                let hits = match cx.search(st, q) {
                    Ok(h) => h,
                    Err(p) => {
                        let sig = format!("C06:store-panics-where-single-records-answer:{}", p.sig());
                        cx.fail(&sig, || json!({"lang": l.tag(), "ops": ops_json(&recs, Some(k), None, &[q]), "panic": p.text()}));
                        return;
                    }
                };
                cx.validated();
                // (a) never more than limit, never a record twice
                let mut ids = ids(&hits);
                ids.sort();
                ids.dedup();
                if hits.len() > k || ids.len() != hits.len() {
                    cx.fail(if hits.len() > k { "C06:more-hits-than-limit" } else { "C06:record-returned-twice" }, || {
                        json!({"lang": l.tag(), "ops": ops_json(&recs, Some(k), None, &[q]), "observed": hits,
                               "unit_test": unit_test_body(l, &recs, Some(k), None, &[q], &format!("    assert!(hits0.len() <= {});\n", k))})
                    });
                }
                // (b) soundness: each hit is that record's own verdict, highlighted the same way
                for (id, title) in &hits {
                    let Some(i) = recs.iter().position(|r| r.0 == *id) else {
                        cx.fail("C06:unknown-id", || json!({"lang": l.tag(), "ops": ops_json(&recs, Some(k), None, &[q]), "observed": hits}));
                        continue;
                    };
                    if alone[i].as_ref() != Some(title) {
                        cx.fail("C06:hit-differs-from-single-record-store", || {
                            json!({"lang": l.tag(), "ops": ops_json(&recs, Some(k), None, &[q]), "record": recs[i], "in_this_store": title, "in_a_store_of_its_own": alone[i],
                                   "unit_test": unit_test_body(l, &recs, Some(k), None, &[q], &format!("    // record {} alone returns {:?}\n    assert_eq!(hits0.iter().find(|h| h.0 == {}).map(|h| h.1.clone()), {:?});\n", id, alone[i], id, alone[i]))})
                        });
                    }
                }
                // (c) completeness for |store| <= 10 * limit
                if n <= 10 * k {
                    let want: Vec<(usize, String)> = unlimited.iter().take(k).cloned().collect();
                    let ok = if set.distinct_ratings { hits == want } else { hits.len() == want.len() };
                    if !ok {
                        cx.fail("C06:not-the-first-limit-entries-of-the-unlimited-list", || {
                            json!({"lang": l.tag(), "ops": ops_json(&recs, Some(k), None, &[q]), "expected": want, "observed": hits, "unlimited_list": unlimited,
                                   "unit_test": unit_test_body(l, &recs, Some(k), None, &[q], &format!("    assert_eq!(hits0, {:?});\n", want))})
                        });
                    }
                }
                if !hits.is_empty() && hits.len() < unlimited.len() {
                    cx.nontrivial();
                }
                cx.class(if hits.is_empty() { "no-hit" } else if hits.len() < unlimited.len() { "truncated" } else { "all-hits-fit" });
                if cx.wants_sample() && hits.len() < unlimited.len() && !hits.is_empty() {
                    cx.sample(|| json!({"lang": l.tag(), "records": recs, "limit": k, "query": q, "hits": hits, "unlimited": unlimited}));
                }
            }
        }
    }
    fn rule(&self) -> String {
        "sweep: every store (sequence of records, repeats allowed, distinct non-monotone ratings) over the title menus x every limit 0..|store|+2 (top-k domains: limits 0..3 on stores of 4..12 records, which exercises the mid-stream truncation at 2*limit and the 10*limit candidate cap) x every query; differential oracle against one-record stores and against the same store with limit |store|+2. Non-trivial = a search whose hit list is non-empty and shorter than the unlimited list (truncation happened).".into()
    }
    fn assumptions(&self) -> Vec<String> {
        vec![
            "reference executions are the real code too (one-record stores, unlimited store): a defect that affects every store size identically is invisible here and left to C03-C05/C08/C09".into(),
            "exact order is compared only on stores with pairwise distinct ratings; the tie domains check the order-free clauses".into(),
            "stores of at most 12 records over the listed menus, plus the four generated stores of 99-150 records".into(),
        ]
    }
}

impl C06 {
    /// |store| > 10 * limit: only the soundness half applies - at most `limit` hits, no record twice, every hit
    /// highlighted exactly as in a store of its own.  Queries are derived from the idx-th title.
    fn run_corpus(&self, idx: u64, cx: &mut Cx) {
        let l = L::En;
        for limit in [10usize, 3] {
            let r = with_full_store(l, limit, |st, titles| {
                let title = titles[idx as usize].clone();
                let words: Vec<&str> = title.split_whitespace().collect();
                let mut queries: Vec<String> = Vec::new();
                if let Some(w) = words.first() {
                    queries.push(w.chars().take(3).collect());
                    queries.push(w.to_string());
                }
                if words.len() >= 2 {
                    queries.push(format!("{} {}", words[0], words[1].chars().take(2).collect::<String>()));
                    queries.push(format!("{} {}", words[words.len() - 1], words[0]));
                }
                for q in queries {
                    cx.eval();
                    let Ok(hits) = cx.search(st, &q) else { return };
                    cx.validated();
                    let mut ids = ids(&hits);
                    ids.sort();
                    ids.dedup();
                    if hits.len() > limit || ids.len() != hits.len() {
                        cx.fail("C06:more-hits-than-limit", || json!({"lang": l.tag(), "store": "all 3 285 e-commerce titles", "limit": limit, "query": q, "observed": hits}));
                    }
                    for (id, got) in &hits {
                        let one = vec![rec(*id, &titles[*id], 1)];
                        let alone = St::with(l, &one, None, None).and_then(|mut s| s.search(&q));
                        let want = alone.ok().and_then(|h| h.into_iter().next().map(|x| x.1));
                        if want.as_ref() != Some(got) {
                            cx.fail("C06:hit-differs-from-single-record-store", || json!({"lang": l.tag(), "store": "all 3 285 e-commerce titles", "limit": limit, "query": q, "record": titles[*id], "in_this_store": got, "in_a_store_of_its_own": want}));
                        }
                    }
                    if hits.len() == limit {
                        cx.nontrivial();
                    }
                    cx.class(if hits.len() == limit { "corpus:limit-reached" } else { "corpus:fewer-than-limit" });
                }
            });
            if r.is_none() {
                cx.machinery("C06: the e-commerce corpus store could not be built".into());
            }
        }
        cx.state();
    }

    fn asym(&self, cx: &mut Cx, l: L, recs: &[Rec], what: &str) {
        // building the multi-record store panicked: is it the records themselves?
        for r in recs {
            if St::with(l, std::slice::from_ref(r), None, None).is_err() {
                return; // a record that cannot even be added alone: outside this statement
            }
        }
        cx.fail("C06:store-panics-where-single-records-answer:build", || json!({"lang": l.tag(), "records": recs, "while": what}));
    }
}
