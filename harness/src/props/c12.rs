//! C12 — an empty query lists the top-rated records.

use super::hl::tok_record;
use crate::bfs::{bfs, Sys};
use crate::engine::*;
use crate::refs::*;
use crate::util::*;
use serde_json::json;
use std::time::Duration;

/// letter- and digit-free queries: empty, separators (space, hyphen, NUL, comma, control and Unicode line separators,
/// Latin-1 punctuation) and symbols that are neither separators nor alphanumeric (quote, plus / hash, zero-width space,
/// a free-standing combining mark)
pub const EMPTY_QUERIES: [&str; 12] = ["", " ", "-", "\0", ", ", "'", "\t\n", "\u{2028}", "+#", "\u{2026} \u{a1}", "\u{200b}", "\u{301}"];

pub fn menu4(l: L) -> Vec<(String, usize)> {
    let s = sym(l);
    // equal ratings where title order ("a" < "a b" < "b") and length order (one word before two) disagree
    vec![(s.c.to_string(), 9), (s.v.to_string(), 9), (s.c.to_string(), 5), (format!("{} {}", s.v, s.c), 9)]
}

/// history menu B: equal ratings, raw order and normalised order disagree, plus a strictly-in-between rating
pub fn menu_case(l: L) -> Vec<(String, usize)> {
    let m = menu10(l);
    vec![m[0].clone(), m[1].clone(), (m[4].0.clone(), 7), (m[8].0.clone(), 9)]
}

/// ratings far above 2^31 and below 2^63 (`menu_beyond` mixes ordinary ratings with the upper half of the range)
pub fn menu_huge(l: L) -> Vec<(String, usize)> {
    let s = sym(l);
    // the first two differ in the lowest bit only (2k + 1 against 2k), and the higher one has the later title
    vec![(s.c.to_string(), (1 << 31) + 3), (format!("{0}{0}", s.v), (1 << 31) + 2), (format!("{} {}", s.v, s.c), 1 << 40), (format!("{0}{1}{0} {1}", s.v, s.c), 1 << 62)]
}

/// ordinary ratings next to ratings in the upper half of the usize range (a rating is a `usize`; the statement
/// quantifies over all stores)
pub fn menu_beyond(l: L) -> Vec<(String, usize)> {
    let s = sym(l);
    let half = 1usize << (usize::BITS - 1);
    vec![(s.c.to_string(), half + 100), (format!("{0}{0}", s.v), 50), (format!("{} {}", s.v, s.c), 200), (format!("{0}{1}{0} {1}", s.v, s.c), usize::MAX), (format!("{0}{1}", s.v, s.c), half - 1), (format!("{1}{0}", s.v, s.c), half)]
}

pub fn menu10(l: L) -> Vec<(String, usize)> {
    // equal ratings; raw order and normalised order disagree ('B' < 'a' raw, 'b' > 'a' normalised; an accented
    // letter of the language sorts after 'f' raw and before it normalised)
    let (acc, next, up, low, other) = match l {
        L::De => ("ö", "p", "B", "a", "b"),
        L::Fr => ("é", "f", "B", "a", "b"),
        L::Es => ("ñ", "o", "B", "a", "b"),
        L::Pt => ("ã", "b", "C", "a", "c"),
        L::Ru => ("ё", "ж", "Б", "а", "б"),
        _ => ("é", "f", "B", "a", "b"),
    };
    vec![
        (up.to_string(), 5),
        (low.to_string(), 5),
        (acc.to_string(), 5),
        (next.to_string(), 5),
        (other.to_string(), 5),
        (low.to_uppercase(), 5),
        // a title with an expanding letter of the language (NUL padding inside the stored text) where there is one
        (match l { L::De => "maß".to_string(), L::Fr => "cœur".to_string(), _ => format!("{}{}", low, other) }, 3),
        (String::new(), 5),
        (format!("{} {}", low, other), 5),
        (format!("{0}{0}", next), 9),
    ]
}

pub struct C12 {
    tier: Tier,
    sets: Vec<(L, String, Vec<(String, usize)>, u32, bool)>, // menu, max len, distinct ratings by position?
}

impl C12 {
    pub fn new(tier: Tier) -> C12 {
        let mut sets = Vec::new();
        for l in LANGS {
            sets.push((l, "stores<=5 over 4 (title,rating) pairs with duplicates".to_string(), menu4(l), tier.pick(5, 7), false));
            sets.push((l, "stores<=3 over 10 pairs (raw vs normalised order)".to_string(), menu10(l), tier.pick(3, 4), false));
            sets.push((l, "stores<=4 over 4 titles, pairwise distinct ratings".to_string(), menu4(l), tier.pick(4, 5), true));
            sets.push((l, "stores<=4 over 4 pairs with ratings 2^31+2, 2^31+3 (lowest bit only) .. 2^62".to_string(), menu_huge(l), 4, false));
            if matches!(l, L::None | L::En | L::Ru) || tier == Tier::Thorough {
                sets.push((l, "stores<=4 over 6 pairs: ratings 50 / 200 next to 2^63-1, 2^63, 2^63+100 and usize::MAX".to_string(), menu_beyond(l), 4, false));
            }
        }
        C12 { tier, sets }
    }
}

/// The statement's clauses for one observed list against the records that should be in the store.
pub fn check_topk(l: L, recs: &[Rec], limit: usize, hits: &Hits) -> Result<(), (&'static str, String)> {
    let want = limit.min(recs.len());
    if hits.len() != want {
        return Err(("wrong-number-of-hits", format!("{} hits, expected min(limit {}, records {}) = {}", hits.len(), limit, recs.len(), want)));
    }
    let mut seen = Vec::new();
    let mut listed: Vec<&Rec> = Vec::new();
    for (id, title) in hits {
        if title.contains(SENT_L) || title.contains(SENT_R) {
            return Err(("highlight-on-empty-query", format!("{:?}", title)));
        }
        let Some(r) = recs.iter().find(|r| r.0 == *id) else {
            return Err(("record-not-in-store", format!("id {} is not among the current records", id)));
        };
        // "no highlighting": the title comes back undecorated, i.e. as stored (composed, NUL-free)
        let plain: String = strip_nul(&ref_compose(&frozen_inventory(l), &chars(&r.1))).into_iter().collect();
        if *title != plain {
            return Err(("title-not-returned-as-stored", format!("record {:?} returned as {:?}", r.1, title)));
        }
        if seen.contains(id) {
            return Err(("record-listed-twice", format!("id {}", id)));
        }
        seen.push(*id);
        listed.push(r);
    }
    if listed.windows(2).any(|w| w[0].2 < w[1].2) {
        return Err(("ratings-increase-down-the-list", format!("{:?}", listed.iter().map(|r| r.2).collect::<Vec<_>>())));
    }
    let norm = |r: &Rec| tok_record(l, &r.1).map(|t| t.chars).unwrap_or_default();
    for o in recs.iter().filter(|r| !seen.contains(&r.0)) {
        for r in &listed {
            if o.2 > r.2 {
                return Err(("omitted-record-rated-higher", format!("omitted {:?} listed {:?}", o, r)));
            }
            if o.2 == r.2 && norm(o) < norm(r) {
                return Err(("tie-not-broken-by-normalised-title", format!("omitted {:?} sorts before listed {:?} at equal rating", o, r)));
            }
        }
    }
    let mut ratings: Vec<usize> = recs.iter().map(|r| r.2).collect();
    ratings.sort();
    ratings.dedup();
    if ratings.len() == recs.len() {
        let mut sorted: Vec<&Rec> = recs.iter().collect();
        sorted.sort_by(|a, b| b.2.cmp(&a.2));
        let want_ids: Vec<usize> = sorted.iter().take(limit).map(|r| r.0).collect();
        if ids(hits) != want_ids {
            return Err(("not-the-best-rated-in-descending-order", format!("expected ids {:?}", want_ids)));
        }
    }
    Ok(())
}

#[derive(Clone, Debug)]
pub enum Op {
    Add(usize),
    Limit(usize),
    Search(usize),
}

struct HistSys {
    l: L,
    menu: Vec<(String, usize)>,
}

const HLIMITS: [usize; 4] = [0, 1, 2, 10];

impl HistSys {
    fn name(&self, op: &Op) -> String {
        match op {
            Op::Add(i) => format!("add({:?},{})", self.menu[*i].0, self.menu[*i].1),
            Op::Limit(k) => format!("limit({})", k),
            Op::Search(q) => format!("search({:?})", EMPTY_QUERIES[*q]),
        }
    }
}

impl Sys for HistSys {
    type Op = Op;
    fn enabled(&self, _h: &[Op]) -> Vec<Op> {
        let mut v = vec![Op::Search(0), Op::Search(1)];
        for i in 0..self.menu.len() {
            v.push(Op::Add(i));
        }
        for k in HLIMITS {
            v.push(Op::Limit(k));
        }
        v
    }
    fn step(&self, hist: &[Op], cx: &mut Cx) -> Option<Vec<u8>> {
        let names = || hist.iter().map(|o| self.name(o)).collect::<Vec<_>>();
        cx.mark(|| format!("history lang={} {:?}", self.l.tag(), names()));
        let mut st = St::new(self.l);
        st.set_markers(SENT_LS, SENT_RS);
        let mut model: Vec<Rec> = Vec::new();
        let mut limit = 10;
        for (i, op) in hist.iter().enumerate() {
            let last = i + 1 == hist.len();
            match op {
                Op::Add(k) => {
                    let r = rec(500 + model.len(), &self.menu[*k].0, self.menu[*k].1);
                    if let Err(p) = st.add(&r) {
                        cx.panic_seen(&p, || json!({"lang": self.l.tag(), "history": names()}));
                        return None;
                    }
                    model.push(r);
                }
                Op::Limit(k) => {
                    limit = *k;
                    st.set_limit(*k);
                }
                Op::Search(q) => match st.search(EMPTY_QUERIES[*q]) {
                    Ok(hits) => {
                        cx.digest_hits(&hits);
                        if last {
                            cx.validated();
                            match check_topk(self.l, &model, limit, &hits) {
                                Ok(()) => {
                                    if !hits.is_empty() && hits.len() < model.len() {
                                        cx.nontrivial();
                                    }
                                    cx.class(if hits.is_empty() { "history:empty-list" } else if hits.len() < model.len() { "history:truncated-list" } else { "history:all-records" });
                                }
                                Err((kind, text)) => {
                                    let shape: Vec<&str> = hist.iter().map(|o| match o { Op::Add(_) => "add", Op::Limit(_) => "limit", Op::Search(_) => "search(empty)" }).collect();
                                    let sig = format!("C12:{}:{}", kind, shape.join("·"));
                                    cx.fail(&sig, || json!({"lang": self.l.tag(), "history": names(), "records_now": model, "limit_now": limit, "observed": hits, "problem": text}));
                                }
                            }
                        }
                    }
                    Err(p) => {
                        cx.panic_seen(&p, || json!({"lang": self.l.tag(), "history": names()}));
                        if last {
                            let sig = format!("C12:panic:{}", p.sig());
                            cx.fail(&sig, || json!({"lang": self.l.tag(), "history": names(), "panic": p.text()}));
                        }
                        return None;
                    }
                },
            }
        }
        cx.tr(1);
        let mut k = super::c10::canon(&st);
        k.push(0xf7);
        for r in &model {
            k.extend_from_slice(&(r.0 as u32).to_le_bytes());
            k.extend_from_slice(r.1.as_bytes());
            k.extend_from_slice(&(r.2 as u64).to_le_bytes());
        }
        k.extend_from_slice(&(limit as u64).to_le_bytes());
        Some(k)
    }
}

impl Prop for C12 {
    fn abort_is_violation(&self) -> bool {
        false
    }
    fn doms(&self) -> Vec<Dom> {
        let mut d: Vec<Dom> = self.sets.iter().map(|(l, name, menu, n, _)| Dom::new(format!("{}/{}", l.tag(), name), seqs_len(menu.len() as u64, 0, *n), 60)).collect();
        d.push(Dom::new("histories", 2 * LANGS.len() as u64, 1).budget(self.tier.pick(120, 1800)).note(format!(
            "BFS to depth {} over {{search(\"\"), search(\" \"), add x4, limit x4}} per language and per menu (duplicates / case-and-accent order conflicts), merged by the canonical store key; every search transition checked against the list model",
            self.tier.pick(6, 9)
        )));
        d
    }
    fn run(&self, dom: usize, idx: u64, cx: &mut Cx) {
        if dom == self.sets.len() {
            let l = LANGS[(idx / 2) as usize];
            let sys = HistSys { l, menu: if idx % 2 == 0 { menu4(l) } else { menu_case(l) } };
            let out = bfs(&sys, cx, "hist_", vec![vec![]], self.tier.pick(6, 9), true, Duration::from_secs(self.tier.pick(100, 1500)), None);
            cx.class(&format!("bfs:depth{}", out.depth_completed));
            return;
        }
        let (l, _, menu, n, distinct) = &self.sets[dom];
        let l = *l;
        let recs: Vec<Rec> = seq_at(menu.len() as u64, 0, *n, idx)
            .into_iter()
            .enumerate()
            .map(|(i, k)| rec(100 + i, &menu[k].0, if *distinct { super::c06::RATINGS[i] } else { menu[k].1 }))
            .collect();
        cx.state();
        for limit in 0..=recs.len() + 2 {
            let Ok(mut st) = cx.build(l, &recs, Some(limit), Some((SENT_LS, SENT_RS))) else { return };
            for q in EMPTY_QUERIES {
                cx.eval();
                let hits = match cx.search(&mut st, q) {
                    Ok(h) => h,
                    Err(p) => {
                        // the reference (a plain list) always answers: a panic here is a violation of "returns exactly ..."
                        let sig = format!("C12:panic:{}", p.sig());
                        cx.fail(&sig, || json!({"lang": l.tag(), "ops": ops_json(&recs, Some(limit), None, &[q]), "panic": p.text()}));
                        return;
                    }
                };
                cx.validated();
                match check_topk(l, &recs, limit, &hits) {
                    Ok(()) => {
                        if !hits.is_empty() && hits.len() < recs.len() {
                            cx.nontrivial();
                        }
                        cx.class(if hits.is_empty() { "empty-list" } else if hits.len() < recs.len() { "truncated-list" } else { "all-records" });
                        if cx.wants_sample() && hits.len() >= 2 && hits.len() < recs.len() {
                            cx.sample(|| json!({"lang": l.tag(), "records": recs, "limit": limit, "query": q, "hits": hits}));
                        }
                    }
                    Err((kind, text)) => {
                        let sig = format!("C12:{}", kind);
                        cx.fail(&sig, || {
                            json!({"lang": l.tag(), "ops": ops_json(&recs, Some(limit), Some((SENT_LS, SENT_RS)), &[q]), "observed": hits, "problem": text,
                                   "unit_test": unit_test_body(l, &recs, Some(limit), Some((SENT_LS, SENT_RS)), &[q], &format!("    // {}\n    panic!(\"{{:?}}\", hits0);\n", text))})
                        });
                    }
                }
            }
        }
    }
    fn rule(&self) -> String {
        "sweep: every store (sequence, repeats allowed) over small (title, rating) menus with duplicate ratings and titles, and over a menu whose raw and normalised title orders disagree, x every limit 0..|store|+2 x twelve letter-free queries (empty, separators of several kinds, symbols that are neither separators nor alphanumeric); reference = top-k over a plain list with the tie rule as a predicate on the public normalised titles. History part: BFS over {empty search x2, add x4, limit x4}, every search transition checked against the list model. Non-trivial = a non-empty list shorter than the store (a selection was made).".into()
    }
    fn assumptions(&self) -> Vec<String> {
        vec![
            "normalised titles are taken from the public tokeniser (tokenize_record(..).chars)".into(),
            "stores of at most 6 records over the listed menus (ratings from 3 up to usize::MAX, on both sides of 2^31 and of 2^63); histories to the listed depth".into(),
            "a panic on an empty query is reported by this check: the statement says what is returned, and the list model always answers".into(),
        ]
    }
}
