//! C13 — typing a whole title, or two of its words in either order, finds the record.

use super::returned::*;
use crate::doms::*;
use crate::engine::*;
use crate::util::*;
use lucid_suggest_core::TextOwn;

pub struct C13 {
    sets: Vec<TitleSet>,
    /// languages for which the whole e-commerce corpus is searched as one store (limit = |store|)
    full: Vec<L>,
}

pub fn title_sets(tier: Tier, f1: (u32, u32), f2: (u32, u32), f4: (u32, u32)) -> Vec<TitleSet> {
    let mut sets = Vec::new();
    let ecom = corpus_ecommerce_titles();
    for l in LANGS {
        sets.push(TitleSet { name: "e-commerce-titles".into(), l, titles: Titles::List(ecom.clone()), nctx: 2, block: 400 });
        sets.push(TitleSet { name: "lexicon-titles<=3w".into(), l, titles: Titles::Words { lex: lex_strings(l), maxw: 3 }, nctx: 3, block: 300 });
        sets.push(TitleSet { name: "lexicon-titles<=2w in a crowd of 25".into(), l, titles: Titles::Words { lex: lex_strings(l), maxw: 2 }, nctx: 4, block: 20 });
        sets.push(TitleSet { name: "lexicon words in a crowd of 120 (limit 120, more than 100 records share the typed prefix)".into(), l, titles: Titles::Words { lex: lex_strings(l), maxw: 1 }, nctx: 5, block: 2 });
        sets.push(TitleSet { name: "long words 19..36 letters".into(), l, titles: Titles::List(long_word_titles(l)), nctx: 4, block: 4 });
        sets.push(TitleSet { name: "function-word prefix pairs: titles<=4w".into(), l, titles: Titles::Words { lex: fw_prefix_lexicon(l), maxw: tier.pick(3, 4) }, nctx: 2, block: 200 });
        sets.push(TitleSet { name: "long texts of 30 / 60 corpus words".into(), l, titles: Titles::List(vec![long_text(30, 0), long_text(30, 500), long_text(60, 100)]), nctx: 1, block: 1 });
        let (a, b, c) = (tier.pick(f1.0, f1.1), tier.pick(f2.0, f2.1), tier.pick(f4.0, f4.1));
        sets.push(TitleSet { name: format!("F1<={}", a), l, titles: Titles::Chars { fam: fam1(l), lo: 0, hi: a }, nctx: 3, block: 500 });
        sets.push(TitleSet { name: format!("F2<={}", b), l, titles: Titles::Chars { fam: fam2(l), lo: 0, hi: b }, nctx: 2, block: 500 });
        sets.push(TitleSet { name: format!("F4<={}", c), l, titles: Titles::Chars { fam: fam4(l), lo: 0, hi: c }, nctx: 2, block: 500 });
        // composition: base, precomposed, combining mark, upper-case base, space (titles typed in decomposed form and with capitals)
        sets.push(TitleSet { name: format!("F5<={}", c), l, titles: Titles::Chars { fam: fam5(l), lo: 0, hi: c }, nctx: 2, block: 500 });
        // capitals next to a composable sequence in otherwise ordinary words
        let s = sym(l);
        let f5 = fam5(l);
        let mixed = vec![f5[0], f5[2], f5[3], s.c, s.c2.to_uppercase().next().unwrap_or(s.c2), ' '];
        sets.push(TitleSet { name: format!("F5caps<={}", b), l, titles: Titles::Chars { fam: mixed, lo: 0, hi: b }, nctx: 1, block: 500 });
        sets.push(TitleSet { name: format!("F7-numerics<={}", b), l, titles: Titles::Chars { fam: fam7(l), lo: 0, hi: b }, nctx: 1, block: 500 });
        sets.push(TitleSet { name: format!("F8-latin1<={}", b.min(5)), l, titles: Titles::Chars { fam: fam8(l), lo: 0, hi: b.min(5) }, nctx: 1, block: 500 });
    }
    sets
}

impl C13 {
    pub fn new(tier: Tier) -> C13 {
        let mut sets = title_sets(tier, (6, 9), (5, 7), (6, 8));
        // whole-title queries of hundreds of words (more than 255 shared grams with the record)
        for l in LANGS {
            sets.push(TitleSet { name: "very long texts of 120 / 300 corpus words".into(), l, titles: Titles::List(vec![long_text(120, 200), long_text(300, 50)]), nctx: 1, block: 1 });
        }
        C13 { sets, full: tier.pick(vec![L::En], LANGS.to_vec()) }
    }
}

pub fn src_word(tok: &TextOwn, w: usize) -> String {
    word_source(tok, w).iter().filter(|c| **c != '\0').collect()
}

fn gen(_l: L, title: &str, tok: &TextOwn, _cx: &mut Cx) -> Queries {
    let mut out: Queries = Vec::new();
    let n = tok.words.len();
    if n == 0 {
        return out;
    }
    out.push((title.to_string(), "whole-title", n >= 2));
    if n >= 2 {
        let (first, last) = (src_word(tok, 0), src_word(tok, n - 1));
        out.push((format!("{} {}", first, last), "first-last", true));
        out.push((format!("{} {}", last, first), "last-first", true));
    }
    out
}

impl Prop for C13 {
    fn doms(&self) -> Vec<Dom> {
        let mut d = doms_of(&self.sets);
        for l in &self.full {
            d.push(Dom::new(format!("{}/the whole e-commerce corpus as one store (3 285 records, limit = |store|)", l.tag()), 3285, 40));
        }
        d
    }
    fn run(&self, dom: usize, idx: u64, cx: &mut Cx) {
        if dom >= self.sets.len() {
            let l = self.full[dom - self.sets.len()];
            let r = with_full_store(l, 3285, |st, titles| {
                let title = titles[idx as usize].clone();
                let Some(tok) = super::hl::tok_record(l, &title) else { return };
                for (q, kind, _) in gen(l, &title, &tok, cx) {
                    cx.eval();
                    cx.validated();
                    let res = cx.search(st, &q);
                    let found = res.as_ref().map(|h| h.iter().any(|x| x.0 == idx as usize)).unwrap_or(false);
                    if found {
                        cx.class(kind);
                        cx.nontrivial();
                    } else {
                        let sig = format!("C13:not-returned:{}:full-store", kind);
                        let seen = res.as_ref().map(|h| h.len()).unwrap_or(0);
                        cx.fail(&sig, || serde_json::json!({"lang": l.tag(), "store": "all 3 285 e-commerce titles, id = position, limit 3285", "record": idx, "title": title, "query": q, "hits_returned": seen,
                                                             "panic": res.as_ref().err().map(|p| p.text())}));
                    }
                }
            });
            if r.is_none() {
                cx.machinery("C13: the e-commerce corpus store could not be built".into());
            }
            cx.state();
            return;
        }
        run_returned("C13", &self.sets[dom], idx, cx, &gen);
    }
    fn abort_is_violation(&self) -> bool {
        true
    }
    fn rule(&self) -> String {
        "sweep: every title with at least one word x store contexts (|store| <= limit) x {the title text itself; for titles of >= 2 words the original spelling of (first word, last word) joined by a space, in both orders}. Non-trivial = title with at least two words.".into()
    }
    fn assumptions(&self) -> Vec<String> {
        vec!["titles limited to the 3 285 e-commerce titles, the word-level lexicon domain (<= 3 words incl. function words and duplicates) and all strings over F1/F2/F4 up to the listed lengths".into(),
             "queries are built from the original (source) spelling of the title words, i.e. what a user would type".into()]
    }
}
