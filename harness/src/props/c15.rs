//! C15 — tokenisation keeps every letter and digit, in well-formed words.

use crate::engine::*;
use crate::refs::*;
use crate::util::*;
use lucid_suggest_core::tokenization::tokenize_record;
use lucid_suggest_core::{tokenize_query, TextOwn};
use serde_json::json;

pub struct C15 {
    sets: Vec<(L, String, Vec<char>, u32, u32)>,
    inv: Vec<Vec<(char, char, char)>>,
    /// long texts: every e-commerce title, plain and with the language's accents / awkward characters woven in
    long: Vec<String>,
}

/// Weave accents, capitals, NULs and odd separators into a real title, deterministically per index.
pub fn decorate(l: L, title: &str, k: u64) -> String {
    let acc: Vec<char> = crate::refs::frozen_reduce(l).iter().filter_map(|(f, _)| f.chars().next()).collect();
    let odd = [NUL, NBSP, COMB_ACUTE, COMB_DIAERESIS, QUOTE, TITLECASE, LOWER_EXPANDS, '-', '\u{2028}'];
    let mut out = String::new();
    for (i, c) in title.chars().enumerate() {
        let r = (i as u64).wrapping_mul(2654435761).wrapping_add(k.wrapping_mul(40503)) % 11;
        match r {
            0 if !acc.is_empty() => out.push(acc[(i + k as usize) % acc.len()]),
            1 => {
                out.push(c);
                out.push(odd[(i + k as usize) % odd.len()]);
            }
            2 => out.extend(c.to_uppercase()),
            _ => out.push(c),
        }
    }
    out
}

/// The 12-symbol adversarial alphabet of DESIGN.md §6 C15, per language.
pub fn adversarial(l: L) -> Vec<char> {
    let (v, up, cb, ac) = match l {
        L::De => ('a', 'A', COMB_DIAERESIS, 'ß'),
        L::Fr => ('e', 'E', COMB_ACUTE, 'œ'),
        L::Es => ('a', 'A', COMB_ACUTE, 'ñ'),
        L::Pt => ('a', 'A', COMB_ACUTE, 'ã'),
        L::Ru => ('е', 'Е', COMB_DIAERESIS, 'ё'),
        _ => ('a', 'A', COMB_DIAERESIS, 'ß'),
    };
    let c = if l.is_cyrillic() { 'т' } else { 't' };
    vec![v, c, DIGIT, QUOTE, up, TITLECASE, NUL, ' ', NBSP, '-', ac, cb]
}

impl C15 {
    pub fn new(tier: Tier) -> C15 {
        Self::build(tier, tier.pick(6, 7))
    }
    pub fn with_bound(n: u32) -> C15 {
        Self::build(Tier::Quick, n)
    }
    fn build(tier: Tier, n: u32) -> C15 {
        let mut sets = Vec::new();
        for l in LANGS {
            sets.push((l, format!("adversarial12<={}", n), adversarial(l), 0, n));
            let m = tier.pick(6, 8);
            sets.push((l, format!("F6-words<={}", m), fam6(l), 1, m));
            // upper-case expanding letters and lower-casing that expands
            let mut extra = fam4(l);
            extra.push(LOWER_EXPANDS);
            extra.push('ẞ');
            let k = tier.pick(5, 6);
            sets.push((l, format!("F4+İẞ<={}", k), extra, 0, k));
            sets.push((l, format!("exotic28<={}", tier.pick(3, 4)), exotic(), 0, if n >= 6 { tier.pick(3, 4) } else { 3 }));
            sets.push((l, format!("F7-numerics<={}", tier.pick(5, 6)), fam7(l), 0, tier.pick(5, 6)));
            sets.push((l, format!("F8-latin1<={}", tier.pick(4, 5)), fam8(l), 0, tier.pick(4, 5)));
            // every composable pair of the language on its own: base, mark, a neutral consonant, space
            for (b, m, _) in frozen_inventory(l) {
                let c = if l.is_cyrillic() { 'т' } else { 't' };
                sets.push((l, format!("pair U+{:04X}+U+{:04X}<={}", b as u32, m as u32, tier.pick(4, 5)), vec![b, m, c, ' '], 0, tier.pick(4, 5)));
            }
        }
        let inv = LANGS.iter().map(|l| frozen_inventory(*l)).collect();
        C15 { sets, inv, long: crate::doms::corpus_ecommerce_titles() }
    }
}

/// Every clause of the statement as a predicate on the public fields.
pub fn check_text(t: &TextOwn, input: &[char], inv: &[(char, char, char)], is_query: bool) -> Result<(), (&'static str, String)> {
    let n = t.chars.len();
    if t.source.len() != n || t.classes.len() != n {
        return Err(("array-lengths-differ", format!("source {} chars {} classes {}", t.source.len(), n, t.classes.len())));
    }
    let mut covered = vec![0u8; n];
    let mut prev_end = 0usize;
    for (i, w) in t.words.iter().enumerate() {
        if w.offset != i {
            return Err(("word-numbering", format!("word {} has offset {}", i, w.offset)));
        }
        let (a, b) = w.slice;
        if a >= b {
            return Err(("empty-word", format!("word {} slice {:?}", i, w.slice)));
        }
        if b > n {
            return Err(("word-out-of-bounds", format!("word {} slice {:?} in text of {}", i, w.slice, n)));
        }
        if a < prev_end {
            return Err(("words-overlap-or-unordered", format!("word {} slice {:?} after end {}", i, w.slice, prev_end)));
        }
        prev_end = b;
        if !t.chars[a].is_alphanumeric() || !t.chars[b - 1].is_alphanumeric() {
            return Err(("word-edge-not-alphanumeric", format!("word {} = {:?}", i, &t.chars[a..b])));
        }
        for &c in &t.chars[a..b] {
            if is_separator(c) {
                return Err(("separator-inside-word", format!("word {} = {:?}", i, &t.chars[a..b])));
            }
            if c.is_uppercase() {
                return Err(("upper-case-inside-word", format!("word {} = {:?}", i, &t.chars[a..b])));
            }
        }
        if w.stem < 1 || w.stem > b - a {
            return Err(("stem-out-of-range", format!("word {} = {:?} stem {}", i, &t.chars[a..b], w.stem)));
        }
        for p in a..b {
            covered[p] += 1;
        }
        if !is_query && !w.fin {
            return Err(("record-word-unfinished", format!("word {}", i)));
        }
        if is_query {
            let last = i + 1 == t.words.len();
            if !last && !w.fin {
                return Err(("inner-query-word-unfinished", format!("word {}", i)));
            }
            if last {
                let nothing_follows = b == n;
                if w.fin == nothing_follows {
                    return Err(("last-query-word-finished-flag", format!("word {:?} fin={} but {} follows it", &t.chars[a..b], w.fin, if nothing_follows { "nothing" } else { "something" })));
                }
            }
        }
    }
    for p in 0..n {
        if t.chars[p].is_alphanumeric() && covered[p] != 1 {
            return Err(("letter-or-digit-not-in-exactly-one-word", format!("position {} char {:?} covered {} times", p, t.chars[p], covered[p])));
        }
    }
    let want = strip_nul(&ref_compose(inv, input));
    let got = strip_nul(&t.source);
    if want != got {
        return Err(("original-text-altered", format!("expected {:?} got {:?}", want.iter().collect::<String>(), got.iter().collect::<String>())));
    }
    Ok(())
}

impl Prop for C15 {
    fn doms(&self) -> Vec<Dom> {
        let mut d: Vec<Dom> = self.sets.iter().map(|(l, name, fam, lo, hi)| Dom::new(format!("{}/{}", l.tag(), name), seqs_len(fam.len() as u64, *lo, *hi), 20000)).collect();
        for l in LANGS {
            d.push(Dom::new(format!("{}/long texts: e-commerce titles plain + 3 decorated variants", l.tag()), 4 * self.long.len() as u64, 2000));
        }
        d
    }
    fn run(&self, dom: usize, idx: u64, cx: &mut Cx) {
        let (l, s) = if dom >= self.sets.len() {
            let l = LANGS[dom - self.sets.len()];
            let t = &self.long[(idx / 4) as usize];
            (l, if idx % 4 == 0 { t.clone() } else { decorate(l, t, idx % 4) })
        } else {
            let (l, _, fam, lo, hi) = &self.sets[dom];
            (*l, string_at(fam, *lo, *hi, idx))
        };
        let input = chars(&s);
        cx.state();
        for is_query in [false, true] {
            cx.eval();
            let which = if is_query { "tokenize_query" } else { "tokenize_record" };
            let t = match cx.call(|| format!("{} lang={} text={:?}", which, l.tag(), s), || with_lang(l, |lang| if is_query { tokenize_query(&s, lang) } else { tokenize_record(&s, lang) })) {
                Ok(t) => t,
                Err(p) => {
                    cx.undecided(&p, || format!("{} lang={} text={:?}", which, l.tag(), s));
                    continue;
                }
            };
            cx.validated();
            match check_text(&t, &input, &self.inv[l as usize], is_query) {
                Ok(()) => {
                    let kind = match t.words.len() {
                        0 => "no-word",
                        1 => "one-word",
                        _ => "several-words",
                    };
                    cx.class(kind);
                    if t.source != input || t.chars != t.source || t.words.iter().any(|w| w.stem < w.slice.1 - w.slice.0) {
                        cx.nontrivial();
                        if cx.wants_sample() && t.words.len() > 1 {
                            cx.sample(|| json!({"lang": l.tag(), "tokenizer": which, "text": s, "words": t.words.iter().map(|w| t.chars[w.slice.0..w.slice.1].iter().collect::<String>()).collect::<Vec<_>>()}));
                        }
                    }
                }
                Err((kind, text)) => {
                    let sig = format!("C15:{}:{}", which, kind);
                    cx.fail(&sig, || {
                        json!({"lang": l.tag(), "tokenizer": which, "text": s, "text_escaped": show(&s), "problem": text,
                               "unit_test": format!("#[test]\nfn replay() {{\n    use lucid_suggest_core::*;\n    let lang = {};\n    let t = {}({}, &lang);\n    // {}\n    panic!(\"{{:?}} {{:?}} {{:?}}\", t.words, t.source, t.chars);\n}}\n", l.ctor(), if is_query { "tokenize_query" } else { "tokenization::tokenize_record" }, lit(&s), text.replace('\n', " "))})
                    });
                }
            }
        }
    }
    fn rule(&self) -> String {
        "sweep: ALL strings up to the bound over a 12-symbol adversarial alphabet per language (vowel, consonant, digit, apostrophe, upper-case, title-case, NUL, space, no-break space, hyphen, an expanding/folded accent, a combining mark that composes with the vowel), all words over the language's suffix letters, and all strings over the expanding letters plus İ and ẞ, through both tokenisers; every clause of the statement is a predicate on the public TextOwn fields. Non-trivial = normalisation changed the text, or some stem is shorter than its word.".into()
    }
    fn assumptions(&self) -> Vec<String> {
        vec![
            "composition reference as in C02 (frozen compose inventory of the language, values cross-checked against the harness's Unicode table); NULs of the input and padding NULs are both removed before comparing the original array".into(),
            "separator = whitespace, control, or the punctuation list of the specification (refs::SPEC_PUNCTUATION)".into(),
            "strings longer than the bound and characters outside the alphabets are not covered (the 'randomly for longer ones' half of the quantifier is not decided here)".into(),
        ]
    }
}
