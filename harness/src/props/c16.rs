//! C16 — the typo distance obeys the laws of a weighted Damerau–Levenshtein distance (needs hooks).

use crate::engine::*;
use crate::refs::*;
use crate::util::*;
use lucid_suggest_core::verif::DamerauLevenshtein;
use lucid_suggest_core::{Lang, TextOwn};
use serde_json::json;

pub fn word_text(s: &str, lang: Option<&Lang>) -> TextOwn {
    let t = TextOwn::from_str(s);
    match lang {
        Some(l) => t.set_char_classes(l),
        None => t,
    }
}

pub const ALPHA: [char; 5] = ['a', 'b', 't', '1', 'ω'];

pub fn long_words() -> Vec<String> {
    let lens = [0usize, 1, 19, 20, 21, 22, 32, 33, 34, 51, 52, 70];
    let mut out = Vec::new();
    for &n in &lens {
        let shapes: Vec<String> = vec![
            "a".repeat(n),
            "ab".chars().cycle().take(n).collect(),
            "abtuvcdefghijklmnopqrsxyz".chars().cycle().take(n).collect(),
            if n > 0 { format!("{}b", "a".repeat(n - 1)) } else { String::new() },
            "aabbttuu".chars().cycle().take(n).collect(),
        ];
        for s in shapes {
            if !out.contains(&s) {
                out.push(s);
            }
        }
    }
    out
}

/// Menu for the call-order exploration: long and short words mixed (capacity boundaries 20 / 21 / 33 / 34).
pub fn order_menu() -> Vec<(String, String)> {
    let a = |n: usize| "a".repeat(n);
    let ab = |n: usize| "ab".chars().cycle().take(n).collect::<String>();
    let v: Vec<(String, String)> = vec![
        ("".into(), "".into()),
        ("a".into(), "".into()),
        ("ab".into(), "ba".into()),
        ("abt".into(), "atb".into()),
        ("metal".into(), "metla".into()),
        ("aabb".into(), "ab".into()),
        ("t1ω".into(), "1tω".into()),
        (a(5), ab(5)),
        (a(19), ab(19)),
        (a(20), ab(20)),
        (a(20), "b".into()),
        (a(21), ab(21)),
        ("b".into(), a(21)),
        (ab(21), ab(5)),
        (a(22), ab(20)),
        (ab(32), a(32)),
        (a(33), ab(33)),
        (ab(33), "ba".into()),
        (a(34), ab(34)),
        ("ab".into(), ab(34)),
        (ab(51), a(51)),
        (a(52), ab(3)),
        (ab(3), ab(52)),
        (ab(70), a(22)),
    ];
    v
}

pub struct C16 {
    tier: Tier,
    lang: Lang,
    words: Vec<String>,
    texts: Vec<TextOwn>,
    plain: Vec<TextOwn>,
    long: Vec<String>,
    menu: Vec<(String, String)>,
}

fn rank(word: &[usize], k: u64) -> u64 {
    let mut r = 0u64;
    for m in 0..word.len() as u32 {
        r += k.pow(m);
    }
    let mut v = 0u64;
    for &d in word {
        v = v * k + d as u64;
    }
    r + v
}

impl C16 {
    pub fn new(tier: Tier) -> C16 {
        let lang = L::Basic.make();
        let n = tier.pick(4, 5);
        let words: Vec<String> = (0..seqs_len(5, 0, n)).map(|i| string_at(&ALPHA, 0, n, i)).collect();
        let texts = words.iter().map(|w| word_text(w, Some(&lang))).collect();
        let plain = words.iter().map(|w| word_text(w, None)).collect();
        C16 { tier, lang, words, texts, plain, long: long_words(), menu: order_menu() }
    }

    /// All laws for one pair on a given (possibly used) instance.  Returns Err(kind, text).
    fn laws(&self, shared: &DamerauLevenshtein, a: &TextOwn, b: &TextOwn, pa: Option<&TextOwn>, pb: Option<&TextOwn>, cells: bool, ia: Option<u64>, ib: Option<u64>) -> Result<f64, (&'static str, String)> {
        let (va, vb) = (a.view(0), b.view(0));
        let fresh = DamerauLevenshtein::new().distance(&va, &vb);
        // a used instance that panics where a fresh one answers depends on what was compared before
        let d = match guard(|| shared.distance(&va, &vb)) {
            Ok(d) => d,
            Err(p) => return Err(("depends-on-earlier-calls", format!("reused instance panics ({}) where a fresh instance returns {}", p.text(), fresh))),
        };
        if d != fresh {
            return Err(("depends-on-earlier-calls", format!("reused instance {} fresh instance {}", d, fresh)));
        }
        let back = DamerauLevenshtein::new().distance(&vb, &va);
        if d != back {
            return Err(("asymmetric", format!("d(a,b)={} d(b,a)={}", d, back)));
        }
        let equal = a.chars == b.chars;
        if (d == 0.0) != equal {
            return Err(("zero-iff-equal", format!("d={} equal={}", d, equal)));
        }
        if (d * 2.0).fract() != 0.0 || d < 0.0 {
            return Err(("not-a-multiple-of-0.5", format!("d={}", d)));
        }
        let lev = ref_lev(&a.chars, &b.chars) as f64;
        if d > lev {
            return Err(("exceeds-levenshtein", format!("d={} levenshtein={}", d, lev)));
        }
        let dl = ref_dl(&a.chars, &b.chars) as f64;
        if d < dl / 2.0 {
            return Err(("below-half-damerau-levenshtein", format!("d={} unrestricted DL={}", d, dl)));
        }
        if let (Some(pa), Some(pb)) = (pa, pb) {
            let unweighted = DamerauLevenshtein::new().distance(&pa.view(0), &pb.view(0));
            if d > unweighted {
                return Err(("discount-raises-distance", format!("with classes {} without {}", d, unweighted)));
            }
        }
        if cells {
            // cell (p+1, q+1) left behind by the call = distance of the prefixes on their own
            let _ = shared.distance(&va, &vb);
            let (la, lb) = (a.chars.len(), b.chars.len());
            for p in 0..=la {
                for q in 0..=lb {
                    let cell = shared.dists.borrow().get(p + 1, q + 1);
                    let own = match (ia, ib) {
                        (Some(ia), Some(ib)) => {
                            // prefixes of domain words are domain words: look their texts up by rank
                            let wa: Vec<usize> = self.words[ia as usize].chars().take(p).map(|c| ALPHA.iter().position(|x| *x == c).unwrap()).collect();
                            let wb: Vec<usize> = self.words[ib as usize].chars().take(q).map(|c| ALPHA.iter().position(|x| *x == c).unwrap()).collect();
                            let (ta, tb) = (&self.texts[rank(&wa, 5) as usize], &self.texts[rank(&wb, 5) as usize]);
                            DamerauLevenshtein::new().distance(&ta.view(0), &tb.view(0))
                        }
                        _ => {
                            let ta = word_text(&a.chars[..p].iter().collect::<String>(), Some(&self.lang));
                            let tb = word_text(&b.chars[..q].iter().collect::<String>(), Some(&self.lang));
                            DamerauLevenshtein::new().distance(&ta.view(0), &tb.view(0))
                        }
                    };
                    if cell != own {
                        return Err(("prefix-cell", format!("cell for prefixes ({}, {}) = {} but their own distance = {}", p, q, cell, own)));
                    }
                }
            }
        }
        Ok(d)
    }
}

thread_local! {
    static SHARED: DamerauLevenshtein = DamerauLevenshtein::new();
}

fn ut(a: &str, b: &str, note: &str) -> String {
    format!(
        "// needs RUSTFLAGS=\"--cfg lucid_suggest_verif\"\n#[test]\nfn replay() {{\n    use lucid_suggest_core::{{verif::DamerauLevenshtein, TextOwn, lang::lang_basic}};\n    let lang = lang_basic();\n    let a = TextOwn::from_str({}).set_char_classes(&lang);\n    let b = TextOwn::from_str({}).set_char_classes(&lang);\n    let d = DamerauLevenshtein::new().distance(&a.view(0), &b.view(0));\n    // {}\n    panic!(\"distance = {{}}\", d);\n}}\n",
        lit(a), lit(b), note.replace('\n', " ")
    )
}

impl Prop for C16 {
    fn doms(&self) -> Vec<Dom> {
        let n = self.words.len() as u64;
        let m = self.menu.len() as u64;
        vec![
            Dom::new(format!("pairs:words<={}over{{a,b,t,1,ω}}", self.tier.pick(4, 5)), n, self.tier.pick(8, 4)).note("case = first word; inner loop = every second word; all laws + every prefix cell; one reused instance per worker thread"),
            Dom::new("long-families", self.long.len() as u64, 2).note("case = first word; inner loop = every long word; lengths 0,1,19..22,32..34,51,52,70 x 5 shapes; laws + corner prefix cells"),
            Dom::new(format!("call-orders<={}", self.tier.pick(3, 4)), seqs_len(m, 1, self.tier.pick(3, 4)), 400).note("every sequence of <= 3 (thorough: 4) distance calls on ONE fresh instance from a 24-pair menu of mixed lengths; no state merging; after every call: value = fresh instance, and prefix cells for short words"),
        ]
    }
    fn run(&self, dom: usize, idx: u64, cx: &mut Cx) {
        match dom {
            0 => {
                let a = &self.texts[idx as usize];
                for j in 0..self.texts.len() {
                    let b = &self.texts[j];
                    cx.eval();
                    cx.state();
                    cx.tr(1);
                    cx.mark(|| format!("distance({:?}, {:?})", self.words[idx as usize], self.words[j]));
                    let r = SHARED.with(|sh| guard(|| self.laws(sh, a, b, Some(&self.plain[idx as usize]), Some(&self.plain[j]), true, Some(idx), Some(j as u64))));
                    self.verdict(cx, r, &self.words[idx as usize], &self.words[j], "pair");
                }
            }
            1 => {
                let a = word_text(&self.long[idx as usize], Some(&self.lang));
                for j in 0..self.long.len() {
                    let b = word_text(&self.long[j], Some(&self.lang));
                    cx.eval();
                    cx.state();
                    cx.tr(1);
                    cx.mark(|| format!("distance(long {} chars, long {} chars)", a.chars.len(), b.chars.len()));
                    let r = SHARED.with(|sh| {
                        guard(|| {
                            let d = self.laws(sh, &a, &b, None, None, false, None, None)?;
                            // corner cells: (len, len), (len-1, len), (len, len-1)
                            let (la, lb) = (a.chars.len(), b.chars.len());
                            let _ = sh.distance(&a.view(0), &b.view(0));
                            for (p, q) in [(la, lb), (la.saturating_sub(1), lb), (la, lb.saturating_sub(1)), (la / 2, lb / 2), (0, lb), (la, 0)] {
                                let cell = sh.dists.borrow().get(p + 1, q + 1);
                                let ta = word_text(&a.chars[..p].iter().collect::<String>(), Some(&self.lang));
                                let tb = word_text(&b.chars[..q].iter().collect::<String>(), Some(&self.lang));
                                let own = DamerauLevenshtein::new().distance(&ta.view(0), &tb.view(0));
                                if cell != own {
                                    return Err(("prefix-cell", format!("cell for prefixes ({}, {}) = {} but their own distance = {}", p, q, cell, own)));
                                }
                            }
                            Ok(d)
                        })
                    });
                    self.verdict(cx, r, &self.long[idx as usize], &self.long[j], "long");
                }
            }
            _ => {
                let m = self.menu.len() as u64;
                let seq: Vec<usize> = seq_at(m, 1, self.tier.pick(3, 4), idx);
                let inst = DamerauLevenshtein::new();
                cx.state();
                for (step, &k) in seq.iter().enumerate() {
                    let (sa, sb) = &self.menu[k];
                    let (a, b) = (word_text(sa, Some(&self.lang)), word_text(sb, Some(&self.lang)));
                    cx.tr(1);
                    if step + 1 < seq.len() {
                        // earlier calls of the history: executed, their verdicts belong to the shorter history
                        cx.mark(|| format!("history call {} distance({:?},{:?})", step, sa, sb));
                        if guard(|| inst.distance(&a.view(0), &b.view(0))).is_err() {
                            return;
                        }
                        continue;
                    }
                    cx.eval();
                    cx.mark(|| format!("history {:?} last call distance({:?},{:?})", seq, sa, sb));
                    let small = a.chars.len() <= 6 && b.chars.len() <= 6;
                    let r = guard(|| self.laws(&inst, &a, &b, None, None, small, None, None));
                    let hist: Vec<String> = seq.iter().map(|k| format!("distance({:?},{:?})", self.menu[*k].0, self.menu[*k].1)).collect();
                    self.verdict(cx, r, sa, sb, &format!("after {:?}", &hist[..hist.len() - 1]));
                }
            }
        }
    }
    fn rule(&self) -> String {
        "(i) all ordered pairs of words up to the bound over {vowel a, consonants b t, digit 1, unclassified ω} with their real character classes, on one reused instance per worker: zero iff equal, symmetric, multiple of 0.5, <= Levenshtein, >= unrestricted Damerau-Levenshtein / 2, <= the unweighted variant, equal to a fresh instance, every prefix cell (p+1,q+1) = distance of the prefixes on their own; (ii) all pairs of a long-word family around the capacities 20/21/33/34/52; (iii) every sequence of <= 3 calls on one instance from a 24-pair menu. Non-trivial = distance that is neither 0 nor the plain Levenshtein distance (a discount or transposition was used).".into()
    }
    fn assumptions(&self) -> Vec<String> {
        vec![
            "drives the private DamerauLevenshtein through the cfg(lucid_suggest_verif) re-export; character classes from lang_basic".into(),
            "words longer than the bound are covered only by the listed long families (laws + corner cells), call orders only to length 3: the 'random longer words in random call orders' half of the quantifier is not decided here".into(),
            "a hook assertion / panic inside the distance routine is C19's verdict, not this property's (counted under undecided_panics)".into(),
        ]
    }
}

impl C16 {
    fn verdict(&self, cx: &mut Cx, r: Result<Result<f64, (&'static str, String)>, PanicInfo>, a: &str, b: &str, ctx: &str) {
        cx.validated();
        match r {
            Ok(Ok(d)) => {
                let lev = ref_lev(&chars(a), &chars(b)) as f64;
                if d != 0.0 && d != lev {
                    cx.nontrivial();
                    cx.class("discounted-or-transposed");
                    if cx.wants_sample() {
                        cx.sample(|| json!({"a": a, "b": b, "distance": d, "levenshtein": lev, "context": ctx}));
                    }
                } else if d == 0.0 {
                    cx.class("zero");
                } else {
                    cx.class("equals-levenshtein");
                }
            }
            Ok(Err((kind, text))) => {
                if text.contains("reused instance panics") {
                    cx.panic_seen(&PanicInfo { loc: "damlev (reused instance)".into(), msg: text.clone() }, || json!({"call": format!("distance({:?},{:?}) {}", a, b, ctx)}));
                }
                let sig = format!("C16:{}", kind);
                cx.fail(&sig, || json!({"a": a, "b": b, "context": ctx, "problem": text, "unit_test": ut(a, b, &text)}));
            }
            Err(p) => {
                cx.panic_seen(&p, || json!({"call": format!("distance({:?},{:?}) {}", a, b, ctx)}));
                cx.undecided(&p, || format!("distance({:?},{:?}) {}", a, b, ctx))
            }
        }
    }
}
