//! C04 — a single typo in a word of five or more letters still finds the record.

use super::c03::embed_contexts;
use super::returned::*;
use crate::doms::*;
use crate::engine::*;
use crate::util::*;
use lucid_suggest_core::TextOwn;
use std::collections::BTreeSet;

pub struct C04 {
    sets: Vec<TitleSet>,
}

impl C04 {
    pub fn new(tier: Tier) -> C04 {
        let mut sets = Vec::new();
        let mut corpus = corpus_en_words();
        corpus.extend(corpus_ecommerce_tokens());
        let corpus: Vec<String> = corpus.into_iter().filter(|w| w.chars().count() >= 5).collect();
        for l in LANGS {
            let s = sym(l);
            sets.push(TitleSet { name: "corpus-words>=5".into(), l, titles: Titles::List(corpus.clone()), nctx: 2, block: 60 });
            let emb: Vec<String> = embed_contexts(l, &corpus).into_iter().enumerate().filter(|(i, _)| i % 5 == 3 || i % 5 == 4).map(|(_, t)| t).collect();
            sets.push(TitleSet { name: "corpus-words-embedded(x w y, f w)".into(), l, titles: Titles::List(emb), nctx: 1, block: 60 });
            sets.push(TitleSet { name: "long words 19..36 letters".into(), l, titles: Titles::List(long_word_titles(l).into_iter().step_by(4).collect()), nctx: 1, block: 1 });
            // every letter of the language's accent inventory (upper- and lower-case rows) inside 5-letter words
            for (from, _) in crate::refs::frozen_reduce(l) {
                let a = from.chars().next().unwrap();
                sets.push(TitleSet { name: format!("accent U+{:04X} words5", a as u32), l, titles: Titles::Chars { fam: vec![a, s.c, s.c2], lo: 5, hi: 5 }, nctx: 1, block: 30 });
            }
            let hi = tier.pick(5, 6);
            sets.push(TitleSet { name: format!("F6-words5..{}", hi), l, titles: Titles::Chars { fam: fam6(l), lo: 5, hi }, nctx: 1, block: 60 });
            let hi2 = tier.pick(5, 6);
            sets.push(TitleSet { name: format!("VCC'O-words5..{}", hi2), l, titles: Titles::Chars { fam: vec![s.v, s.c, s.c2, OTHER], lo: 5, hi: hi2 }, nctx: 1, block: 40 });
        }
        if tier == Tier::Thorough {
            for l in [L::En, L::Ru] {
                sets.push(TitleSet { name: "F6-words7".into(), l, titles: Titles::Chars { fam: fam6(l), lo: 7, hi: 7 }, nctx: 1, block: 60 });
            }
        }
        C04 { sets }
    }
}

impl C04 {
    /// A small slice for C01's quick tier (where only panics, aborts and the checked-vs-shipping digests matter):
    /// forty corpus words and the lexicon words of five or more letters in all five embeddings (alone, after /
    /// before another word, between two words, after a function word) x every single edit.
    pub fn slim() -> C04 {
        let mut sets = Vec::new();
        let corpus: Vec<String> = corpus_en_words().into_iter().filter(|w| w.chars().count() >= 5).step_by(7).take(40).collect();
        for l in [L::None, L::En, L::De, L::Ru] {
            let mut words = corpus.clone();
            words.extend(lex_strings(l).into_iter().filter(|w| w.chars().count() >= 5));
            sets.push(TitleSet { name: "slim: 40 corpus words + lexicon words >=5, five embeddings".into(), l, titles: Titles::List(embed_contexts(l, &words)), nctx: 1, block: 10 });
        }
        C04 { sets }
    }
}

/// lower-case letters of the language's script that normalisation leaves unchanged
fn letters(l: L) -> Vec<char> {
    let range: Vec<char> = if l.is_cyrillic() { ('а'..='я').collect() } else { ('a'..='z').collect() };
    with_lang(l, |lang| {
        range
            .into_iter()
            .filter(|c| lang.unicode_reduce(&[*c]).is_none() && lang.unicode_compose(&[*c]).is_none() && c.to_lowercase().next() == Some(*c) && c.is_alphabetic())
            .collect()
    })
}

fn gen(l: L, _title: &str, tok: &TextOwn, cx: &mut Cx) -> Queries {
    let mut out: Queries = Vec::new();
    let abc = letters(l);
    let mut seen: BTreeSet<String> = BTreeSet::new();
    for w in 0..tok.words.len() {
        let word = word_chars(tok, w).to_vec();
        let distinct: BTreeSet<char> = word.iter().copied().collect();
        if word.len() < 5 || distinct.len() < 3 || !word.iter().all(|c| c.is_alphabetic()) {
            cx.skip_pre();
            continue;
        }
        let mut push = |v: Vec<char>, kind: &'static str| {
            let q: String = v.into_iter().collect();
            if seen.insert(q.clone()) {
                out.push((q, kind, true));
            }
        };
        for i in 0..word.len() {
            for &c in &abc {
                if c != word[i] {
                    let mut v = word.clone();
                    v[i] = c;
                    push(v, "substitution");
                }
            }
        }
        for i in 0..=word.len() {
            for &c in &abc {
                let mut v = word.clone();
                v.insert(i, c);
                push(v, "insertion");
            }
        }
        for i in 0..word.len() {
            let mut v = word.clone();
            v.remove(i);
            push(v, "deletion");
        }
        for i in 0..word.len() - 1 {
            if word[i] != word[i + 1] {
                let mut v = word.clone();
                v.swap(i, i + 1);
                push(v, "transposition");
            }
        }
    }
    out
}

impl Prop for C04 {
    fn doms(&self) -> Vec<Dom> {
        doms_of(&self.sets)
    }
    fn run(&self, dom: usize, idx: u64, cx: &mut Cx) {
        run_returned("C04", &self.sets[dom], idx, cx, &gen);
    }
    fn abort_is_violation(&self) -> bool {
        true
    }
    fn rule(&self) -> String {
        "sweep: every title x every qualifying word of its public tokenisation (>= 5 characters, all alphabetic, >= 3 distinct) x ALL single edits of the normalised word: every position x every unchanged lower-case letter of the script for substitutions and insertions, every deletion, every transposition of unequal neighbours; the edited word is the whole query. Every edit is non-trivial; duplicates among the edits of one title are removed.".into()
    }
    fn assumptions(&self) -> Vec<String> {
        vec!["words limited to the corpora (English top-1000 and e-commerce tokens, alone and embedded), all words of length 5..n over the language's six suffix letters, and all words of length 5..n over {vowel, two consonants, unclassified letter}".into(),
             "letters: a-z (Cyrillic а-я for ru) filtered through the public normaliser (unchanged by compose / reduce / lower-casing)".into()]
    }
}
