//! C10 — no stale state: after any history the store answers like a freshly built one.
//! Explicit-state BFS over operation histories on the real `Store` (DESIGN.md §6 C10).

use crate::bfs::{bfs, Sys};
use crate::engine::*;
use crate::util::*;
use lucid_suggest_core::Store;
use serde_json::{json, Value};
use std::time::Duration;

#[derive(Clone, Debug, PartialEq)]
pub enum Op {
    Add(usize),
    Clear,
    Limit(usize),
    Markers(usize),
    Search(usize),
}

pub const LIMITS: [usize; 4] = [0, 1, 2, 10];
pub const MARKERS: [(&str, &str); 4] = [("[", "]"), ("<b>", "</b>"), ("", ""), ("\u{ab}", "\u{bb}")];

pub struct Menu {
    pub recs: Vec<Rec>,
    pub queries: Vec<String>,
}

pub fn menu(l: L) -> Menu {
    if l == L::Ru {
        Menu {
            recs: vec![rec(1, "альфа бета", 5), rec(2, "бета", 9), rec(3, "ал", 7), rec(4, "бета", 9), rec(5, "", 1), rec(6, "Бета", 5)],
            queries: ["", " ", "ал", "бета", "бта", "альфабета"].iter().map(|s| s.to_string()).collect(),
        }
    } else {
        Menu {
            recs: vec![rec(1, "alpha beta", 5), rec(2, "beta", 9), rec(3, "al", 7), rec(4, "beta", 9), rec(5, "", 1), rec(6, "Beta", 5)],
            queries: ["", " ", "al", "beta", "bta", "alphabeta"].iter().map(|s| s.to_string()).collect(),
        }
    }
}

/// Words around and beyond twenty letters (the stemmer's scratch buffer starts with room for twenty bytes): state kept
/// inside the store's `Lang` is outside the canonical key, so these menus are explored without merging as well.
pub fn menu_long(l: L) -> Menu {
    let (long_title, mid_title, long_q, mid_q, short) = match l {
        L::Ru => ("достопримечательностями города", "путешественники", "достопримечательность ", "путешественник", "бета"),
        L::De => ("Geschwindigkeitsbegrenzungen heute", "Sehenswürdigkeiten", "geschwindigkeitsbegrenzung ", "sehenswürdigkeit", "beta"),
        _ => ("internationalisations today", "misunderstandings", "internationalisation ", "misunderstanding", "beta"),
    };
    Menu {
        recs: vec![rec(1, long_title, 3), rec(2, mid_title, 5), rec(3, short, 9)],
        queries: ["", mid_q, long_q, short].iter().map(|s| s.to_string()).collect(),
    }
}

pub fn op_name(m: &Menu, op: &Op) -> String {
    match op {
        Op::Add(i) => format!("add({},{:?},{})", m.recs[*i].0, m.recs[*i].1, m.recs[*i].2),
        Op::Clear => "clear".into(),
        Op::Limit(n) => format!("limit({})", n),
        Op::Markers(i) => format!("markers({:?},{:?})", MARKERS[*i].0, MARKERS[*i].1),
        Op::Search(i) => format!("search({:?})", m.queries[*i]),
    }
}

/// Signature = the shape of the history (operation kinds; queries classed empty / non-empty).
pub fn shape(m: &Menu, hist: &[Op]) -> String {
    hist.iter()
        .map(|op| match op {
            Op::Add(_) => "add".to_string(),
            Op::Clear => "clear".to_string(),
            Op::Limit(_) => "limit".to_string(),
            Op::Markers(_) => "markers".to_string(),
            Op::Search(i) => {
                if m.queries[*i].chars().any(|c| c.is_alphanumeric()) {
                    "search(q)".to_string()
                } else {
                    "search(empty)".to_string()
                }
            }
        })
        .collect::<Vec<_>>()
        .join("·")
}

pub fn history_json(m: &Menu, hist: &[Op]) -> Value {
    Value::Array(hist.iter().map(|o| json!(op_name(m, o))).collect())
}

pub fn history_unit_test(l: L, m: &Menu, hist: &[Op], tail: &str) -> String {
    let mut s = String::from("#[test]\nfn replay() {\n    use lucid_suggest_core::*;\n");
    s.push_str(&format!("    let mut store = Store::new();\n    store.lang = {};\n", l.ctor()));
    for op in hist {
        match op {
            Op::Add(i) => s.push_str(&format!("    store.add(Record::new({}, {}, {}, &store.lang));\n", m.recs[*i].0, lit(&m.recs[*i].1), m.recs[*i].2)),
            Op::Clear => s.push_str("    store.clear();\n"),
            Op::Limit(n) => s.push_str(&format!("    store.limit = {};\n", n)),
            Op::Markers(i) => s.push_str(&format!("    store.highlight_with(({}, {}));\n", lit(MARKERS[*i].0), lit(MARKERS[*i].1))),
            Op::Search(i) => s.push_str(&format!(
                "    let q = tokenize_query({}, &store.lang);\n    let hits = store.search(&q.to_ref()).into_iter().map(|r| (r.id, r.title)).collect::<Vec<_>>();\n",
                lit(&m.queries[*i])
            )),
        }
    }
    s.push_str(tail);
    s.push_str("}\n");
    s
}

/// The list model: what the store *should* hold.
#[derive(Clone, Debug, Default)]
pub struct Model {
    pub recs: Vec<Rec>,
    pub limit: usize,
    pub markers: usize,
}

pub fn canon(st: &St) -> Vec<u8> {
    canon_store(&st.store, st.l)
}

pub fn canon_store(store: &Store, l: L) -> Vec<u8> {
    // exhaustive destructuring: a new field in `Store` must be added here or this stops compiling
    let Store { next_ix, records, limit, lang: _, dividers, index, top_ixs } = store;
    let mut k = Vec::with_capacity(256);
    k.push(l as u8);
    k.extend_from_slice(&(*next_ix as u64).to_le_bytes());
    k.extend_from_slice(&(*limit as u64).to_le_bytes());
    for r in records {
        k.extend_from_slice(&(r.id as u32).to_le_bytes());
        k.extend_from_slice(&(r.ix as u32).to_le_bytes());
        k.extend_from_slice(&(r.rating as u64).to_le_bytes());
        for c in &r.title.source {
            k.extend_from_slice(&(*c as u32).to_le_bytes());
        }
        k.push(0xfe);
    }
    k.push(0xfd);
    for c in dividers.0.iter().chain(std::iter::once(&'\u{1}')).chain(dividers.1.iter()) {
        k.extend_from_slice(&(*c as u32).to_le_bytes());
    }
    k.push(0xfc);
    match &*top_ixs.borrow() {
        None => k.push(0),
        Some(v) => {
            k.push(1);
            for i in v {
                k.extend_from_slice(&(*i as u32).to_le_bytes());
            }
        }
    }
    k.push(0xfb);
    #[cfg(lucid_suggest_verif)]
    {
        let (len, dict) = index.borrow().verif_digest();
        k.extend_from_slice(&(len as u64).to_le_bytes());
        for (g, ixs) in dict {
            for c in &g {
                k.extend_from_slice(&(*c as u32).to_le_bytes());
            }
            for i in ixs {
                k.extend_from_slice(&(i as u32).to_le_bytes());
            }
            k.push(0xfa);
        }
    }
    #[cfg(not(lucid_suggest_verif))]
    {
        let _ = index;
    }
    k
}

pub struct C10Sys {
    pub l: L,
    pub menu: Menu,
    pub prop: &'static str,
    /// C01's statement does not mention clear(): its history search runs without it
    pub allow_clear: bool,
}

impl C10Sys {
    fn report(&self, cx: &mut Cx, kind: &str, hist: &[Op], expected: Value, observed: Value) {
        let sig = format!("{}:{}:{}", self.prop, kind, shape(&self.menu, hist));
        let (l, m) = (self.l, &self.menu);
        cx.fail(&sig, || {
            json!({
                "lang": l.tag(), "history": history_json(m, hist), "expected_from_fresh_store": expected, "observed": observed,
                "unit_test": history_unit_test(l, m, hist, &format!("    // expected (fresh store with the same records, limit, markers): {}\n", expected)),
            })
        });
    }
}

impl Sys for C10Sys {
    type Op = Op;

    fn enabled(&self, _hist: &[Op]) -> Vec<Op> {
        let mut v = Vec::new();
        for i in 0..self.menu.queries.len() {
            v.push(Op::Search(i));
        }
        for i in 0..self.menu.recs.len() {
            v.push(Op::Add(i));
        }
        if self.allow_clear {
            v.push(Op::Clear);
        }
        for n in LIMITS {
            v.push(Op::Limit(n));
        }
        for i in 0..MARKERS.len() {
            v.push(Op::Markers(i));
        }
        v
    }

    fn step(&self, hist: &[Op], cx: &mut Cx) -> Option<Vec<u8>> {
        cx.mark(|| format!("history lang={} {}", self.l.tag(), history_json(&self.menu, hist)));
        let m = &self.menu;
        let mut st = St::new(self.l);
        let mut model = Model { recs: Vec::new(), limit: 10, markers: 0 };
        let mut calls = 0u64;
        let n = hist.len();
        for (i, op) in hist.iter().enumerate() {
            let last = i + 1 == n;
            calls += 1;
            match op {
                Op::Add(r) => {
                    model.recs.push(m.recs[*r].clone());
                    if let Err(p) = st.add(&m.recs[*r]) {
                        cx.panic_seen(&p, || json!({"lang": self.l.tag(), "history": history_json(m, hist)}));
                        if last {
                            // the model says this add is fine: does a fresh store accept the same list?
                            match St::with(self.l, &model.recs, Some(model.limit), Some(MARKERS[model.markers])) {
                                Ok(_) => self.report(cx, "panic", hist, json!("add returns normally"), json!(p.text())),
                                Err(_) => cx.undecided(&p, || format!("history {}", history_json(m, hist))),
                            }
                        }
                        return None;
                    }
                }
                Op::Clear => {
                    model.recs.clear();
                    if let Err(p) = st.clear() {
                        cx.panic_seen(&p, || json!({"lang": self.l.tag(), "history": history_json(m, hist)}));
                        if last {
                            self.report(cx, "panic", hist, json!("clear returns normally"), json!(p.text()));
                        }
                        return None;
                    }
                }
                Op::Limit(k) => {
                    model.limit = *k;
                    st.set_limit(*k);
                }
                Op::Markers(k) => {
                    model.markers = *k;
                    st.set_markers(MARKERS[*k].0, MARKERS[*k].1);
                }
                Op::Search(q) => {
                    let got = st.search(&m.queries[*q]);
                    match &got {
                        Ok(h) => cx.digest_hits(h),
                        Err(p) => cx.panic_seen(p, || json!({"lang": self.l.tag(), "history": history_json(m, hist)})),
                    }
                    if last {
                        // oracle: a freshly constructed store with the model's records / limit / markers
                        let fresh = St::with(self.l, &model.recs, Some(model.limit), Some(MARKERS[model.markers])).and_then(|mut f| f.search(&m.queries[*q]));
                        calls += model.recs.len() as u64 + 1;
                        cx.validated();
                        match (&got, &fresh) {
                            (Ok(a), Ok(b)) => {
                                if a != b {
                                    self.report(cx, "stale", hist, json!(b), json!(a));
                                } else {
                                    if !a.is_empty() {
                                        cx.nontrivial();
                                    }
                                    cx.class(if a.is_empty() { "search:no-hits" } else if m.queries[*q].trim().is_empty() { "search:empty-query-hits" } else { "search:query-hits" });
                                }
                            }
                            (Err(p), Ok(b)) => self.report(cx, "panic", hist, json!(b), json!(p.text())),
                            (Ok(a), Err(p)) => self.report(cx, "fresh-store-panics", hist, json!(p.text()), json!(a)),
                            (Err(p), Err(_)) => cx.undecided(p, || format!("history {}", history_json(m, hist))),
                        }
                        if cx.wants_sample() && n >= 3 {
                            cx.sample(|| json!({"lang": self.l.tag(), "history": history_json(m, hist), "observed": got.as_ref().ok(), "fresh": fresh.as_ref().ok()}));
                        }
                    }
                    if got.is_err() {
                        return None;
                    }
                }
            }
        }
        cx.extra("api_calls", calls);
        cx.tr(1);
        // key = real state + model state: two histories that leave the same real store but different
        // expectations (a lost update) have different futures with respect to the oracle
        let mut k = canon(&st);
        k.push(0xf7);
        for r in &model.recs {
            k.extend_from_slice(&(r.0 as u32).to_le_bytes());
        }
        k.push(0xf6);
        k.extend_from_slice(&(model.limit as u64).to_le_bytes());
        k.push(model.markers as u8);
        Some(k)
    }
}

pub struct C10 {
    tier: Tier,
    configs: Vec<(L, usize)>, // language, start id
}

/// initial stores: empty, one record, three records, and a crowd of twelve (with limit 1 the candidate cap of 10 cuts)
pub const STARTS: [&[usize]; 4] = [&[], &[0], &[0, 1, 2], &[0, 1, 2, 3, 5, 0, 1, 2, 3, 5, 1, 3]];

/// pseudo start id of the long-word configurations
pub const LONG: usize = 100;

impl C10 {
    pub fn new(tier: Tier) -> C10 {
        let langs: Vec<L> = tier.pick(vec![L::None, L::En], LANGS.to_vec());
        let mut configs = Vec::new();
        for l in langs {
            for s in 0..STARTS.len() {
                configs.push((l, s));
            }
        }
        // long-word menus (start id LONG): Cyrillic (two bytes per letter), German, English
        for l in [L::Ru, L::De, L::En] {
            configs.push((l, LONG));
        }
        C10 { tier, configs }
    }
    fn depth(&self, merged: bool) -> u32 {
        match (self.tier, merged) {
            (Tier::Quick, true) => 5,
            (Tier::Quick, false) => 3,
            (Tier::Thorough, true) => 7,
            (Tier::Thorough, false) => 4,
        }
    }
    /// thorough: one level deeper for the language-free store (the growth factor is ~5 per level)
    fn depth_for(&self, l: L, merged: bool) -> u32 {
        self.depth(merged) + if self.tier == Tier::Thorough && merged && l == L::None { 1 } else { 0 }
    }
}

impl Prop for C10 {
    fn doms(&self) -> Vec<Dom> {
        vec![Dom::new("bfs-configs", self.configs.len() as u64, 1)
            .budget(self.tier.pick(170, 3000))
            .note(format!(
                "one merged BFS per (language, initial store: empty / 1 / 3 / a crowd of 12 records, the crowd one level shallower) to depth {} (thorough: +1 for the language-free store), followed by the same search without state matching to depth {} (every key it reaches must be known to the merged search); 21 operations enabled in every state (20 when C01 drives it without clear); plus, for ru / de / en, a menu of words around and beyond twenty letters (3 records, 4 queries) from the empty store, merged to depth-1 and without merging to the unmerged depth (state inside the store's Lang is outside the key)",
                self.depth(true),
                self.depth(false)
            ))]
    }
    fn run(&self, _dom: usize, idx: u64, cx: &mut Cx) {
        let (l, s) = self.configs[idx as usize];
        if s == LONG {
            // every store of these searches - the one with the history and the freshly built reference - gets a newly
            // constructed Lang (elsewhere language objects are pooled per worker thread for speed, which would give the
            // "fresh" store a language object with a past)
            let sys = C10Sys { l, menu: menu_long(l), prop: "C10", allow_clear: !cx.c01 };
            let (d, du) = (self.depth(true) - 1, self.depth(false));
            let (cap, cap2) = (Duration::from_secs(self.tier.pick(60, 600)), Duration::from_secs(self.tier.pick(60, 600)));
            with_fresh_langs(|| {
                let out = bfs(&sys, cx, "long_merged_", vec![vec![]], d, true, cap, None);
                cx.class(&format!("bfs:long-words:merged:depth{}", out.depth_completed));
                let out2 = bfs(&sys, cx, "long_unmerged_", vec![vec![]], du, false, cap2, None);
                cx.class(&format!("bfs:long-words:unmerged:depth{}", out2.depth_completed));
            });
            return;
        }
        let sys = C10Sys { l, menu: menu(l), prop: "C10", allow_clear: !cx.c01 };
        let start: Vec<Op> = STARTS[s].iter().map(|i| Op::Add(*i)).collect();
        let cap = Duration::from_secs(self.tier.pick(120, 2400));
        // from the crowd each replay costs twelve adds: one level less
        let crowd = STARTS[s].len() > 3;
        let d = self.depth_for(l, true) - if crowd { 1 } else { 0 };
        let out = bfs(&sys, cx, "merged_", vec![start.clone()], d, true, cap, None);
        cx.class(&format!("bfs:merged:depth{}", out.depth_completed));
        // dedup soundness cross-check (DESIGN.md §3.7b)
        // state outside the key (the index's counter vector, thread-local scratch) can only be seen without
        // merging: from the crowd - where the candidate cap cuts - the unmerged search goes one level deeper
        let out2 = bfs(&sys, cx, "unmerged_", vec![start], self.depth(false) + if crowd { 1 } else { 0 }, false, Duration::from_secs(self.tier.pick(60, 900)), Some(&out.seen));
        cx.class(&format!("bfs:unmerged:depth{}", out2.depth_completed));
        if out2.missing > 0 && !out.capped {
            cx.machinery(format!("C10 dedup cross-check: {} states reached without merging are unknown to the merged search (lang {}, start {})", out2.missing, l.tag(), s));
        }
    }
    fn rule(&self) -> String {
        "explicit-state BFS: a state is an operation history over {search(q)×6, add(r)×6, clear, limit×4, markers×4 (incl. a multi-byte pair)} replayed on a fresh real Store; states merged by the canonical key (all Store fields incl. memo and index digest); every transition ending in a search is compared with a freshly built store. Non-trivial = a validated search transition that returned at least one hit. distinct = distinct histories (one per explored transition).".into()
    }
    fn assumptions(&self) -> Vec<String> {
        vec![
            "operation alphabet and depth bound as listed under coverage.domains; histories beyond the bound and queries / records outside the menu are not covered (the property's 'randomly beyond' half is not decided by this check)".into(),
            "state merging assumes every future observation of a Store is a function of its fields (canonical key destructures Store exhaustively) and of thread-local scratch whose independence is C16/C17/C19; cross-checked by the unmerged search".into(),
            "128-bit hash of the canonical bytes stands for the state".into(),
        ]
    }
}
