//! C02 — hit titles are the stored titles, only decorated; ids are real; no NUL.

use super::hl::*;
use crate::engine::*;
use crate::refs::*;
use crate::util::*;
use serde_json::json;

pub struct C02 {
    sets: Vec<HlSet>,
    inv: Vec<Vec<(char, char, char)>>,
}

impl C02 {
    pub fn new(tier: Tier) -> C02 {
        let sets = hl_sets(&Bounds { t: tier.pick(5, 6), q: tier.pick(3, 4), words: tier.pick(2, 3), corpus: true, pairs: true, fams: vec![1, 2, 3, 4, 5, 7, 9] });
        let inv = LANGS.iter().map(|l| frozen_inventory(*l)).collect();
        C02 { sets, inv }
    }
}

fn marker_menu(l: L) -> Vec<(String, String)> {
    let s = sym(l);
    vec![
        (String::new(), String::new()),
        ("[".into(), "]".into()),
        ("{{".into(), "}}".into()),
        (s.v.to_string(), s.c.to_string()),
        ("|".into(), "|".into()),
        // markers that contain a control character (ANSI bold on / off)
        ("\u{1b}[1m".into(), "\u{1b}[0m".into()),
    ]
}

impl Prop for C02 {
    fn doms(&self) -> Vec<Dom> {
        hl_doms(&self.sets)
    }
    fn run(&self, dom: usize, idx: u64, cx: &mut Cx) {
        let set = &self.sets[dom];
        let l = set.l;
        let inv = &self.inv[l as usize];
        let title = set.titles.get(idx);
        let t2 = companion(set, idx, 0);
        let stores: [Vec<Rec>; 2] = [vec![rec(10, &title, 5)], vec![rec(10, &title, 5), rec(20, &t2, 9)]];
        let menu = marker_menu(l);
        for (si, recs) in stores.iter().enumerate() {
            let Some(mut st) = cx.build_noted(l, recs, None, Some((SENT_LS, SENT_RS))) else { return };
            cx.state();
            let expected: Vec<(usize, String)> = recs.iter().map(|r| (r.0, strip_nul(&ref_compose(inv, &chars(&r.1))).into_iter().collect::<String>())).collect();
            let mut alt: Vec<St> = Vec::new();
            if si == 0 {
                for (a, b) in &menu {
                    match cx.build(l, recs, None, Some((a, b))) {
                        Ok(s) => alt.push(s),
                        Err(_) => return,
                    }
                }
            }
            for q in set.queries_for(&title).iter() {
                cx.eval();
                let hits = match cx.search(&mut st, q) {
                    Ok(h) => h,
                    Err(p) => {
                        cx.undecided(&p, || format!("lang={} records={:?} query={:?}", l.tag(), recs, q));
                        match cx.build(l, recs, None, Some((SENT_LS, SENT_RS))) {
                            Ok(s) => st = s,
                            Err(_) => return,
                        }
                        continue;
                    }
                };
                cx.validated();
                let mut spans = 0;
                for (id, got) in &hits {
                    // (1) the id is the id of an added record
                    let Some((_, want)) = expected.iter().find(|e| e.0 == *id) else {
                        cx.fail("C02:unknown-id", || json!({"lang": l.tag(), "ops": ops_json(recs, None, Some((SENT_LS, SENT_RS)), &[q]), "observed_id": id}));
                        continue;
                    };
                    // (3) never a NUL
                    if got.contains('\0') {
                        cx.fail("C02:nul-in-title", || json!({"lang": l.tag(), "ops": ops_json(recs, None, Some((SENT_LS, SENT_RS)), &[q]), "observed": got}));
                    }
                    // (2) markers deleted = the stored title, composed, NUL-free
                    let plain: String = got.chars().filter(|c| *c != SENT_L && *c != SENT_R).collect();
                    spans += got.chars().filter(|c| *c == SENT_L).count();
                    if plain != *want {
                        cx.fail("C02:title-altered", || {
                            json!({"lang": l.tag(), "ops": ops_json(recs, None, Some((SENT_LS, SENT_RS)), &[q]), "expected_without_markers": want, "observed": got,
                                   "unit_test": unit_test_body(l, recs, None, Some((SENT_LS, SENT_RS)), &[q],
                                        &format!("    let t = &hits0.iter().find(|h| h.0 == {}).unwrap().1;\n    assert_eq!(t.replace('\\u{{e000}}', \"\").replace('\\u{{e001}}', \"\"), {});\n", id, lit(want)))})
                        });
                    }
                }
                if spans > 0 && (title.chars().any(|c| c == '\0' || !c.is_ascii()) || title != expected[0].1) {
                    cx.nontrivial();
                }
                cx.class(if hits.is_empty() { "no-hit" } else if spans == 0 { "hits-without-spans" } else { "hits-with-spans" });
                // (4) changing the markers changes nothing but the markers
                for (mi, s2) in alt.iter_mut().enumerate() {
                    let (a, b) = &menu[mi];
                    let want: Hits = hits.iter().map(|(id, t)| (*id, t.replace(SENT_L, a).replace(SENT_R, b))).collect();
                    match cx.search(s2, q) {
                        Ok(h2) => {
                            cx.validated();
                            if h2 != want {
                                cx.fail("C02:markers-change-more-than-markers", || {
                                    json!({"lang": l.tag(), "ops": ops_json(recs, None, Some((a, b)), &[q]), "expected_from_sentinel_run": want, "observed": h2})
                                });
                            }
                        }
                        Err(p) => {
                            cx.fail("C02:markers-change-more-than-markers:panic", || {
                                json!({"lang": l.tag(), "ops": ops_json(recs, None, Some((a, b)), &[q]), "expected_from_sentinel_run": want, "observed": format!("panic: {}", p.text())})
                            });
                            return;
                        }
                    }
                }
                if cx.wants_sample() && spans > 0 {
                    cx.sample(|| json!({"lang": l.tag(), "records": recs, "query": q, "hits": hits}));
                }
            }
        }
    }
    fn rule(&self) -> String {
        "sweep: every title of each domain as a one-record store and as a two-record store (ids 10, 20) x every query of the domain, searched with sentinel markers U+E000/U+E001; the one-record store is searched again under six other marker pairs (empty, brackets, two-character, letters occurring in titles, identical left/right, ANSI escape sequences). Non-trivial = a search returning a highlighted title whose stored form contains NUL, a non-ASCII character or a composable sequence.".into()
    }
    fn assumptions(&self) -> Vec<String> {
        vec![
            "composition reference: greedy left-to-right over the language's frozen compose inventory (harness/src/frozen.rs, cross-checked against a Unicode table carried by the harness)".into(),
            "titles and queries limited to the listed alphabets, lengths and the word-level lexicon".into(),
            "a case where the search itself panics is outside this statement (counted under undecided_panics, inside C01's domain)".into(),
        ]
    }
}
