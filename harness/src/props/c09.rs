//! C09 — highlight markup is balanced, word-aligned and present exactly when expected.

use super::hl::*;
use crate::engine::*;
use crate::refs::*;
use crate::util::*;
use serde_json::json;

pub struct C09 {
    sets: Vec<HlSet>,
}

impl C09 {
    pub fn new(tier: Tier) -> C09 {
        C09 { sets: hl_sets(&Bounds { t: tier.pick(5, 6), q: tier.pick(4, 5), words: tier.pick(2, 3), corpus: true, pairs: false, fams: vec![1, 2, 3, 4, 5, 7, 8, 9] }) }
    }
}

/// Returns the kind of span layout seen, or an error signature.
pub fn check_markup(title_tok: &WordMap, got: &str, query_has_alnum: bool) -> Result<&'static str, (&'static str, String)> {
    let parsed = parse_spans(got).map_err(|e| ("unbalanced-markers", e))?;
    let mut owners: Vec<usize> = Vec::new();
    for &(s, e) in &parsed.spans {
        if e <= s {
            return Err(("empty-span", format!("span ({}, {})", s, e)));
        }
        let Some(w) = title_tok.words.iter().position(|w| w.0 == s) else {
            return Err(("span-not-at-word-start", format!("span ({}, {}) words {:?}", s, e, title_tok.words)));
        };
        if e > title_tok.words[w].1 {
            return Err(("span-leaves-its-word", format!("span ({}, {}) word {:?}", s, e, title_tok.words[w])));
        }
        if owners.contains(&w) {
            return Err(("word-highlighted-twice", format!("word {} spans {:?}", w, parsed.spans)));
        }
        owners.push(w);
    }
    if query_has_alnum && parsed.spans.is_empty() {
        return Err(("hit-without-highlight", "query contains a letter or digit but the hit has no span".into()));
    }
    if !query_has_alnum && !parsed.spans.is_empty() {
        return Err(("highlight-for-empty-query", format!("spans {:?}", parsed.spans)));
    }
    Ok(match parsed.spans.len() {
        0 => "no-span",
        1 => "one-span",
        _ => {
            owners.sort();
            if owners.windows(2).any(|w| w[1] == w[0] + 1) {
                "adjacent-words-highlighted"
            } else {
                "several-spans"
            }
        }
    })
}

impl Prop for C09 {
    fn doms(&self) -> Vec<Dom> {
        hl_doms(&self.sets)
    }
    fn run(&self, dom: usize, idx: u64, cx: &mut Cx) {
        let set = &self.sets[dom];
        let l = set.l;
        let title = set.titles.get(idx);
        let t2 = companion(set, idx, 0);
        let stores: [Vec<Rec>; 2] = [vec![rec(10, &title, 5)], vec![rec(20, &t2, 9), rec(10, &title, 5)]];
        for recs in stores.iter() {
            let Some(mut st) = cx.build_noted(l, recs, None, Some((SENT_LS, SENT_RS))) else { return };
            cx.state();
            // public tokenisation of each stored title
            let maps: Vec<(usize, Option<WordMap>)> = recs.iter().map(|r| (r.0, tok_record(l, &r.1).map(|t| word_map(&t)))).collect();
            for q in set.queries_for(&title).iter() {
                cx.eval();
                let hits = match cx.search(&mut st, q) {
                    Ok(h) => h,
                    Err(p) => {
                        cx.undecided(&p, || format!("lang={} records={:?} query={:?}", l.tag(), recs, q));
                        match cx.build(l, recs, None, Some((SENT_LS, SENT_RS))) {
                            Ok(s) => st = s,
                            Err(_) => return,
                        }
                        continue;
                    }
                };
                let alnum = has_alnum(q);
                for (id, got) in &hits {
                    let Some((_, Some(map))) = maps.iter().find(|m| m.0 == *id) else { continue };
                    cx.validated();
                    match check_markup(map, got, alnum) {
                        Ok(kind) => {
                            cx.class(kind);
                            if kind != "no-span" {
                                cx.nontrivial();
                            }
                            if kind == "adjacent-words-highlighted" && cx.wants_sample() {
                                cx.sample(|| json!({"lang": l.tag(), "records": recs, "query": q, "hit": got}));
                            }
                        }
                        Err((kind, text)) => {
                            let sig = format!("C09:{}", kind);
                            cx.fail(&sig, || {
                                json!({"lang": l.tag(), "ops": ops_json(recs, None, Some((SENT_LS, SENT_RS)), &[q]), "observed_title": got, "problem": text,
                                       "title_words_in_returned_coordinates": map.words,
                                       "unit_test": unit_test_body(l, recs, None, Some((SENT_LS, SENT_RS)), &[q], &format!("    // observed title {} : {}\n", lit(got), text))})
                            });
                        }
                    }
                }
            }
        }
    }
    fn rule(&self) -> String {
        "sweep: every title of each domain as a one-record store and behind a second record x every query, searched with sentinel markers; every returned title is parsed and its spans compared with the public tokenisation (tokenize_record) of the stored title. Non-trivial = a returned title with at least one span. outcome_classes distinguishes one span / several spans / adjacent words highlighted (joined matches).".into()
    }
    fn assumptions(&self) -> Vec<String> {
        vec![
            "span positions are compared in the coordinates of the returned title (NUL padding mapped out through the public tokeniser's source array)".into(),
            "titles and queries limited to the listed alphabets, lengths and the word-level lexicon".into(),
            "a case where the search itself panics is outside this statement (counted under undecided_panics, inside C01's domain)".into(),
        ]
    }
}
