//! C11 — search ignores letter case, Unicode composition form and the language's accents.

use crate::doms::*;
use crate::engine::*;
use crate::refs::*;
use crate::util::*;
use serde_json::json;

pub struct C11 {
    /// inflected / stemmable words: every re-casing of the query at every subset of positions
    stem_sets: Vec<(L, String, Titles, Vec<String>)>,
    tier: Tier,
    /// (language, accent letter or plain letter)
    letters: Vec<(L, char)>,
    fw: Vec<(L, String)>,
}

fn other_case(c: char) -> Option<char> {
    let up: Vec<char> = c.to_uppercase().collect();
    let lo: Vec<char> = c.to_lowercase().collect();
    if c.is_lowercase() && up.len() == 1 && up[0] != c {
        let back: Vec<char> = up[0].to_lowercase().collect();
        if back == vec![c] {
            return Some(up[0]);
        }
    }
    if c.is_uppercase() && lo.len() == 1 && lo[0] != c {
        let back: Vec<char> = lo[0].to_uppercase().collect();
        if back == vec![c] {
            return Some(lo[0]);
        }
    }
    None
}

fn decomposed(l: L, c: char) -> Option<String> {
    frozen_compose(l).iter().find(|(_, to)| to.chars().next() == Some(c) && to.chars().count() == 1).map(|(from, _)| from.to_string())
}

fn folded(l: L, c: char) -> Option<String> {
    frozen_reduce(l).iter().find(|(from, _)| from.chars().next() == Some(c) && from.chars().count() == 1).map(|(_, to)| to.to_string())
}

#[derive(Clone, Copy, Debug, PartialEq)]
enum Tf {
    Case,
    Decompose,
    Fold,
}

fn apply(l: L, tf: Tf, c: char) -> Option<String> {
    match tf {
        Tf::Case => other_case(c).map(|c| c.to_string()),
        Tf::Decompose => decomposed(l, c),
        Tf::Fold => folded(l, c),
    }
}

/// All variants of `s`: for each transform, every non-empty subset of the positions it applies to.
fn variants(l: L, s: &str, tfs: &[Tf]) -> Vec<(String, String)> {
    let cs: Vec<char> = s.chars().collect();
    let mut out = Vec::new();
    for &tf in tfs {
        let pos: Vec<usize> = (0..cs.len()).filter(|i| apply(l, tf, cs[*i]).is_some()).collect();
        if pos.is_empty() || pos.len() > 8 {
            continue;
        }
        for mask in 1u32..(1 << pos.len()) {
            let mut v = String::new();
            for (i, c) in cs.iter().enumerate() {
                match pos.iter().position(|p| *p == i) {
                    Some(k) if (mask >> k) & 1 == 1 => v.push_str(&apply(l, tf, *c).unwrap()),
                    _ => v.push(*c),
                }
            }
            if v != s {
                out.push((v, format!("{:?}@{:b}", tf, mask)));
            }
        }
    }
    out
}

impl C11 {
    pub fn new(tier: Tier) -> C11 {
        let mut letters = Vec::new();
        let mut fw = Vec::new();
        for l in LANGS {
            for (from, _) in frozen_reduce(l) {
                letters.push((l, from.chars().next().unwrap()));
            }
            // a plain letter: only case and separators vary (every language, incl. those without maps)
            letters.push((l, if l.is_cyrillic() { 'а' } else { 'a' }));
            for w in frozen_function_words(l) {
                if w.chars().any(|c| !c.is_ascii()) && !w.contains(' ') && !w.contains('-') && !w.contains('\'') && (l != L::Ru || w.contains('ё')) {
                    fw.push((l, w.to_string()));
                }
            }
            if l == L::Ru {
                for w in ["на", "не", "её"] {
                    fw.push((l, w.to_string()));
                }
            }
            if l == L::En || l == L::None {
                for w in ["the", "of"] {
                    fw.push((l, w.to_string()));
                }
            }
        }
        let mut stem_sets = Vec::new();
        for l in LANGS {
            let lex = lex_strings(l);
            stem_sets.push((l, "lexicon titles<=2w x one-word queries (all prefixes), every re-casing".to_string(), Titles::Words { lex: lex.clone(), maxw: 2 }, word_queries(&lex, 1)));
            let f6 = fam6(l);
            let (t, q) = tier.pick((3, 3), (4, 4));
            stem_sets.push((l, format!("F6 suffix-letter words: titles<={} x queries<={}, every re-casing", t, q), Titles::Chars { fam: f6.clone(), lo: 1, hi: t }, all_strings(&f6, 1, q)));
        }
        C11 { stem_sets, tier, letters, fw }
    }
    fn alphabet(&self, l: L, a: char) -> Vec<char> {
        let base = folded(l, a).and_then(|f| f.chars().next()).unwrap_or(if l.is_cyrillic() { 'б' } else { 'b' });
        let cons = if l.is_cyrillic() { 'т' } else { 't' };
        let mut v = vec![a, base, cons, ' '];
        v.dedup();
        v
    }
    fn n(&self) -> u32 {
        self.tier.pick(3, 4)
    }

    fn compare(&self, cx: &mut Cx, l: L, kind: &'static str, what: &str, recs_a: &[Rec], q_a: &str, recs_b: &[Rec], q_b: &str, base: &Result<Hits, PanicInfo>, st_b: &mut St) -> bool {
        cx.eval();
        let got = cx.search(st_b, q_b);
        cx.validated();
        match (base, &got) {
            (Ok(a), Ok(b)) => {
                if a != b {
                    let sig = format!("C11:{}", kind);
                    cx.fail(&sig, || {
                        json!({"lang": l.tag(), "variant": what, "ops": ops_json(recs_b, None, None, &[q_b]), "observed": b,
                               "original": {"ops": ops_json(recs_a, None, None, &[q_a]), "hits": a},
                               "unit_test": unit_test_body(l, recs_b, None, None, &[q_b], &format!("    // the untransformed case {:?} / query {} returns {:?}\n    assert_eq!(hits0, {:?});\n", recs_a, lit(q_a), a, a))})
                    });
                    return false;
                }
                if !a.is_empty() {
                    cx.nontrivial();
                }
                cx.class(if a.is_empty() { "same:no-hits" } else { "same:hits" });
                true
            }
            (Ok(_), Err(p)) | (Err(p), Ok(_)) => {
                let sig = format!("C11:{}:panic-on-one-side:{}", kind, p.sig());
                cx.fail(&sig, || json!({"lang": l.tag(), "variant": what, "ops": ops_json(recs_b, None, None, &[q_b]), "original": ops_json(recs_a, None, None, &[q_a]), "panic": p.text()}));
                false
            }
            (Err(p), Err(_)) => {
                cx.undecided(p, || format!("lang={} records={:?} query={:?}", l.tag(), recs_a, q_a));
                false
            }
        }
    }
}

impl Prop for C11 {
    fn doms(&self) -> Vec<Dom> {
        let n = self.n();
        let mut d: Vec<Dom> = self
            .letters
            .iter()
            .map(|(l, a)| {
                let k = self.alphabet(*l, *a).len() as u64;
                Dom::new(format!("{}/letter {} (U+{:04X}): titles<={} x queries<={}", l.tag(), a, *a as u32, n, n), seqs_len(k, 0, n), self.tier.pick(40, 10))
            })
            .collect();
        d.push(Dom::new("accented-function-words", self.fw.len() as u64, 1));
        for (l, name, t, _) in &self.stem_sets {
            d.push(Dom::new(format!("{}/{}", l.tag(), name), t.len(), 20));
        }
        d
    }
    fn run(&self, dom: usize, idx: u64, cx: &mut Cx) {
        if dom == self.letters.len() {
            return self.run_fw(idx, cx);
        }
        if dom > self.letters.len() {
            let (l, _, titles, queries) = &self.stem_sets[dom - self.letters.len() - 1];
            let l = *l;
            let title = titles.get(idx);
            let recs = vec![rec(10, &title, 5)];
            let Ok(mut st) = cx.build(l, &recs, None, None) else { return };
            cx.state();
            for q in queries {
                cx.eval();
                let base = cx.search(&mut st, q);
                if base.is_err() {
                    match cx.build(l, &recs, None, None) {
                        Ok(s) => st = s,
                        Err(_) => return,
                    }
                }
                for (v, what) in variants(l, q, &[Tf::Case, Tf::Fold, Tf::Decompose]) {
                    let kind = if what.starts_with("Case") { "other-case-query" } else if what.starts_with("Fold") { "folded-query" } else { "decomposed-query" };
                    if !self.compare(cx, l, kind, &what, &recs, q, &recs, &v, &base, &mut st) {
                        match cx.build(l, &recs, None, None) {
                            Ok(s) => st = s,
                            Err(_) => return,
                        }
                    }
                }
            }
            return;
        }
        let (l, a) = self.letters[dom];
        let fam = self.alphabet(l, a);
        let n = self.n();
        let title = string_at(&fam, 0, n, idx);
        let recs = vec![rec(10, &title, 5)];
        let Ok(mut st) = cx.build(l, &recs, None, None) else { return };
        cx.state();
        // title variants: decomposed at every subset of positions
        let mut tvars: Vec<(String, String, Vec<Rec>, St)> = Vec::new();
        for (tv, what) in variants(l, &title, &[Tf::Decompose]) {
            let r2 = vec![rec(10, &tv, 5)];
            match cx.build(l, &r2, None, None) {
                Ok(s) => tvars.push((tv, what, r2, s)),
                Err(p) => {
                    let sig = format!("C11:decomposed-title:panic-on-one-side:{}", p.sig());
                    cx.fail(&sig, || json!({"lang": l.tag(), "title": tv, "original_title": title, "panic": p.text()}));
                    return;
                }
            }
        }
        for qi in 0..seqs_len(fam.len() as u64, 0, n) {
            let q = string_at(&fam, 0, n, qi);
            cx.eval();
            let base = cx.search(&mut st, &q);
            if base.is_err() {
                // rebuild: scratch state is suspect
                match cx.build(l, &recs, None, None) {
                    Ok(s) => st = s,
                    Err(_) => return,
                }
            }
            // query variants
            let mut qv = variants(l, &q, &[Tf::Case, Tf::Decompose, Tf::Fold]);
            for pre in [" ", "-", ", "] {
                qv.push((format!("{}{}", pre, q), format!("separator-prefix {:?}", pre)));
            }
            for (v, what) in qv {
                let kind = if what.starts_with("Case") {
                    "other-case-query"
                } else if what.starts_with("Decompose") {
                    "decomposed-query"
                } else if what.starts_with("Fold") {
                    "folded-query"
                } else {
                    "separator-prefixed-query"
                };
                if !self.compare(cx, l, kind, &what, &recs, &q, &recs, &v, &base, &mut st) {
                    if let Ok(s) = cx.build(l, &recs, None, None) {
                        st = s;
                    } else {
                        return;
                    }
                }
            }
            for (_, what, r2, s2) in tvars.iter_mut() {
                let what = format!("title {}", what);
                self.compare(cx, l, "decomposed-title", &what, &recs, &q, r2, &q, &base, s2);
            }
            if cx.wants_sample() && base.as_ref().map(|h| !h.is_empty()).unwrap_or(false) && q.chars().any(|c| !c.is_ascii()) {
                cx.sample(|| json!({"lang": l.tag(), "title": title, "query": q, "variants_compared": variants(l, &q, &[Tf::Case, Tf::Decompose, Tf::Fold]).iter().map(|v| v.0.clone()).collect::<Vec<_>>(), "hits": base.as_ref().ok()}));
            }
        }
    }
    fn rule(&self) -> String {
        "sweep: for each language and EACH letter of its accent inventory (frozen copy of the reduce / compose tables; upper- and lower-case rows separately) plus one plain letter: every title and every query up to the bound over {the letter, the first letter it folds to, a consonant, space}; every query is compared with all its variants - every non-empty subset of applicable positions re-cased (one-to-one case mappings only) / decomposed into base + combining mark / folded, and three separator prefixes; every title with all its decomposed variants. Third domain: stemmable words (the lexicon with its inflections; all words over the language's suffix letters), every query re-cased at every non-empty subset of positions. Second domain: every accented one-token function word of the language in three-record stores, same variants. Non-trivial = a comparison where the common result has at least one hit.".into()
    }
    fn assumptions(&self) -> Vec<String> {
        vec![
            "the accent inventory is the frozen copy in /verif/harness/src/frozen.rs (taken from the pinned tree): dropping a letter from a language table shows up as a violation for that letter".into(),
            "queries contain no free-standing combining marks (decomposed variants are produced only from precomposed letters)".into(),
            "both sides of every comparison are executions of the real code".into(),
        ]
    }
}

impl C11 {
    fn run_fw(&self, idx: u64, cx: &mut Cx) {
        let (l, f) = &self.fw[idx as usize];
        let l = *l;
        let (x, sfx) = if l.is_cyrillic() { ("жщжщ", "щ") } else { ("zqzq", "q") };
        let recs = vec![rec(1, &format!("{} {}", f, x), 5), rec(2, &format!("{}{}", f, sfx), 1), rec(3, &format!("{} {}", x, f), 9), rec(4, f, 3)];
        let Ok(mut st) = cx.build(l, &recs, None, None) else { return };
        cx.state();
        let heads: Vec<char> = f.chars().collect();
        let mut queries: Vec<String> = (1..=heads.len()).map(|k| heads[..k].iter().collect()).collect();
        queries.push(format!("{} ", f));
        queries.push(format!("{} {}", f, &x[..x.char_indices().nth(2).map(|c| c.0).unwrap_or(x.len())]));
        queries.push(format!("{} {}", x, f));
        for q in queries {
            cx.eval();
            let base = cx.search(&mut st, &q);
            if base.is_err() {
                return;
            }
            for (v, what) in variants(l, &q, &[Tf::Case, Tf::Decompose, Tf::Fold]) {
                if !self.compare(cx, l, "function-word-query-variant", &what, &recs, &q, &recs, &v, &base, &mut st) {
                    return;
                }
            }
            // the stored titles decomposed / re-cased must rank and highlight alike (titles themselves differ in case)
            for (tv, what) in variants(l, f, &[Tf::Decompose]) {
                let r2 = vec![rec(1, &format!("{} {}", tv, x), 5), rec(2, &format!("{}{}", tv, sfx), 1), rec(3, &format!("{} {}", x, tv), 9), rec(4, &tv, 3)];
                let Ok(mut s2) = cx.build(l, &r2, None, None) else { return };
                self.compare(cx, l, "function-word-decomposed-titles", &what, &recs, &q, &r2, &q, &base, &mut s2);
            }
        }
    }
}
