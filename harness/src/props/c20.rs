//! C20 — stores in the top-level registry are isolated and keep their own last result.
//! Explicit-state BFS over interleaved registry histories through the functions of lib.rs.

use super::c10::canon_store;
use crate::bfs::{bfs, Sys};
use crate::engine::*;
use crate::util::*;
use lucid_suggest_core as core;
use serde_json::{json, Value};
use std::cell::RefCell;
use std::collections::{BTreeMap, HashMap};
use std::time::Duration;

#[derive(Clone, Debug, PartialEq)]
pub enum Op {
    Create(usize, usize), // id, language index into REG_LANGS
    Destroy(usize),
    Add(usize, usize),
    Limit(usize, usize),
    Markers(usize, usize),
    Search(usize, usize),
}

pub const REG_LANGS: [L; 2] = [L::None, L::En];
pub const RECS: [(usize, &str, usize); 4] = [(1, "alpha beta", 5), (2, "beta", 9), (3, "al", 7), (4, "alpha", 9)];
/// 12 lies above the registry's initial buffer capacity (10); from the crowd start twelve records match "alpha"
pub const LIMITS: [usize; 4] = [0, 1, 10, 12];
/// index 0 must stay the store default ("[", "]"): the reference model starts there
pub const MARKERS: [(&str, &str); 3] = [("[", "]"), ("<b>", "</b>"), ("\u{ab}", "\u{bb}")];
/// "elphe" is "alpha" with two vowel typos: a hit under English character classes (0.5 each), none without a language -
/// the same text means different tokens on ids with different languages
pub const QUERIES: [&str; 5] = ["", "be", "alpha", "al ", "elphe"];

#[derive(Clone, Debug)]
struct MStore {
    l: L,
    recs: Vec<Rec>,
    limit: usize,
    markers: usize,
    last: Hits,
}

pub struct RegSys {
    pub ids: Vec<usize>,
    memo: RefCell<HashMap<String, Result<Hits, String>>>,
}

fn name(op: &Op) -> String {
    match op {
        Op::Create(id, l) => format!("create_store({}, {})", id, REG_LANGS[*l].tag()),
        Op::Destroy(id) => format!("destroy_store({})", id),
        Op::Add(id, r) => format!("add_record({}, {}, {:?}, {})", id, RECS[*r].0, RECS[*r].1, RECS[*r].2),
        Op::Limit(id, k) => format!("set_limit({}, {})", id, LIMITS[*k]),
        Op::Markers(id, m) => format!("highlight_with({}, ({:?}, {:?}))", id, MARKERS[*m].0, MARKERS[*m].1),
        Op::Search(id, q) => format!("run_search({}, {:?})", id, QUERIES[*q]),
    }
}

fn shape(hist: &[Op]) -> String {
    hist.iter()
        .map(|op| match op {
            Op::Create(..) => "create".to_string(),
            Op::Destroy(..) => "destroy".to_string(),
            Op::Add(..) => "add".to_string(),
            Op::Limit(..) => "limit".to_string(),
            Op::Markers(..) => "markers".to_string(),
            Op::Search(_, q) => if QUERIES[*q].is_empty() { "search(empty)".to_string() } else { "search(q)".to_string() },
        })
        .collect::<Vec<_>>()
        .join("·")
}

fn hist_json(hist: &[Op]) -> Value {
    Value::Array(hist.iter().map(|o| json!(name(o))).collect())
}

fn unit_test(hist: &[Op], tail: &str) -> String {
    let mut s = String::from("#[test]\nfn replay() {\n    use lucid_suggest_core::*;\n");
    for op in hist {
        s.push_str("    ");
        s.push_str(&match op {
            Op::Create(id, l) => format!("create_store({}, {});", id, REG_LANGS[*l].ctor()),
            Op::Destroy(id) => format!("destroy_store({});", id),
            Op::Add(id, r) => format!("add_record({}, {}, {}, {});", id, RECS[*r].0, lit(RECS[*r].1), RECS[*r].2),
            Op::Limit(id, k) => format!("set_limit({}, {});", id, LIMITS[*k]),
            Op::Markers(id, m) => format!("highlight_with({}, ({}, {}));", id, lit(MARKERS[*m].0), lit(MARKERS[*m].1)),
            Op::Search(id, q) => format!("run_search({}, {});", id, lit(QUERIES[*q])),
        });
        s.push('\n');
    }
    s.push_str(tail);
    s.push_str("}\n");
    s
}

fn wipe_registry(ids: &[usize]) {
    for id in ids {
        let _ = guard(|| core::destroy_store(*id));
    }
}

fn read_buffer(id: usize) -> Result<Hits, PanicInfo> {
    guard(|| core::using_results(id, |b| b.iter().map(|r| (r.id, r.title.clone())).collect::<Vec<_>>()))
}

impl RegSys {
    pub fn new(ids: Vec<usize>) -> RegSys {
        RegSys { ids, memo: RefCell::new(HashMap::new()) }
    }
    /// What a stand-alone store with the same language, records, limit and markers returns.
    fn standalone(&self, m: &MStore, q: &str) -> Result<Hits, String> {
        let key = format!("{}|{:?}|{}|{}|{}", m.l.tag(), m.recs.iter().map(|r| r.0).collect::<Vec<_>>(), m.limit, m.markers, q);
        if let Some(v) = self.memo.borrow().get(&key) {
            return v.clone();
        }
        let v = St::with(m.l, &m.recs, Some(m.limit), Some(MARKERS[m.markers])).and_then(|mut s| s.search(q)).map_err(|p| p.text());
        self.memo.borrow_mut().insert(key, v.clone());
        v
    }
}

impl Sys for RegSys {
    type Op = Op;

    fn enabled(&self, hist: &[Op]) -> Vec<Op> {
        // live ids after the history (valid calls only)
        let mut live: BTreeMap<usize, ()> = BTreeMap::new();
        for op in hist {
            match op {
                Op::Create(id, _) => {
                    live.insert(*id, ());
                }
                Op::Destroy(id) => {
                    live.remove(id);
                }
                _ => {}
            }
        }
        let mut v = Vec::new();
        for &id in &self.ids {
            if live.contains_key(&id) {
                for q in 0..QUERIES.len() {
                    v.push(Op::Search(id, q));
                }
                for r in 0..RECS.len() {
                    v.push(Op::Add(id, r));
                }
                for k in 0..LIMITS.len() {
                    v.push(Op::Limit(id, k));
                }
                for m in 0..MARKERS.len() {
                    v.push(Op::Markers(id, m));
                }
                v.push(Op::Destroy(id));
            } else {
                for l in 0..REG_LANGS.len() {
                    v.push(Op::Create(id, l));
                }
            }
        }
        v
    }

    fn step(&self, hist: &[Op], cx: &mut Cx) -> Option<Vec<u8>> {
        cx.mark(|| format!("registry history {}", hist_json(hist)));
        wipe_registry(&self.ids);
        let mut model: BTreeMap<usize, MStore> = BTreeMap::new();
        let n = hist.len();
        for (i, op) in hist.iter().enumerate() {
            let last = i + 1 == n;
            let res = match op {
                Op::Create(id, l) => {
                    model.insert(*id, MStore { l: REG_LANGS[*l], recs: Vec::new(), limit: 10, markers: 0, last: Vec::new() });
                    guard(|| core::create_store(*id, REG_LANGS[*l].make()))
                }
                Op::Destroy(id) => {
                    model.remove(id);
                    guard(|| core::destroy_store(*id))
                }
                Op::Add(id, r) => {
                    model.get_mut(id).unwrap().recs.push(rec(RECS[*r].0, RECS[*r].1, RECS[*r].2));
                    guard(|| core::add_record(*id, RECS[*r].0, RECS[*r].1, RECS[*r].2))
                }
                Op::Limit(id, k) => {
                    model.get_mut(id).unwrap().limit = LIMITS[*k];
                    guard(|| core::set_limit(*id, LIMITS[*k]))
                }
                Op::Markers(id, m) => {
                    model.get_mut(id).unwrap().markers = *m;
                    guard(|| core::highlight_with(*id, MARKERS[*m]))
                }
                Op::Search(id, q) => {
                    let want = self.standalone(&model[id], QUERIES[*q]);
                    let r = guard(|| core::run_search(*id, QUERIES[*q]));
                    match want {
                        Ok(h) => model.get_mut(id).unwrap().last = h,
                        Err(_) => {
                            // the stand-alone store panics as well: outside this statement
                            if let Err(p) = &r {
                                cx.undecided(p, || format!("registry history {}", hist_json(hist)));
                            }
                            wipe_registry(&self.ids);
                            return None;
                        }
                    }
                    r
                }
            };
            if let Err(p) = res {
                cx.panic_seen(&p, || json!({"history": hist_json(hist)}));
                if last {
                    let sig = format!("C20:valid-call-panics:{}", shape(hist));
                    cx.fail(&sig, || json!({"history": hist_json(hist), "panic": p.text(), "unit_test": unit_test(hist, "")}));
                }
                wipe_registry(&self.ids);
                return None;
            }
            if last {
                // every live id's buffer = the hits of the last search run on that id
                cx.validated();
                let mut all_ok = true;
                for (id, m) in &model {
                    match read_buffer(*id) {
                        Ok(buf) => {
                            cx.digest_hits(&buf);
                            if buf != m.last {
                                all_ok = false;
                                let kind = if matches!(op, Op::Search(sid, _) if sid == id) { "wrong-result" } else { "buffer-disturbed" };
                                let sig = format!("C20:{}:{}", kind, shape(hist));
                                cx.fail(&sig, || {
                                    json!({"history": hist_json(hist), "store_id": id, "expected_buffer": m.last, "observed_buffer": buf,
                                           "unit_test": unit_test(hist, &format!("    using_results({}, |b| assert_eq!(b.iter().map(|r| (r.id, r.title.clone())).collect::<Vec<_>>(), {:?}));\n", id, m.last))})
                                });
                            }
                        }
                        Err(p) => {
                            all_ok = false;
                            let sig = format!("C20:live-id-unreadable:{}", shape(hist));
                            cx.fail(&sig, || json!({"history": hist_json(hist), "store_id": id, "panic": p.text()}));
                        }
                    }
                }
                if all_ok {
                    let nonempty = model.values().filter(|m| !m.last.is_empty()).count();
                    if nonempty > 0 && model.len() > 1 {
                        cx.nontrivial();
                    }
                    cx.class(match (model.len(), nonempty) {
                        (0, _) => "no-live-store",
                        (1, 0) => "one-store:empty-buffer",
                        (1, _) => "one-store:results",
                        (_, 0) => "several-stores:empty-buffers",
                        (_, 1) => "several-stores:one-with-results",
                        _ => "several-stores:several-with-results",
                    });
                    if cx.wants_sample() && nonempty > 1 {
                        cx.sample(|| json!({"history": hist_json(hist), "buffers": model.iter().map(|(id, m)| json!({"id": id, "hits": m.last})).collect::<Vec<_>>()}));
                    }
                }
            }
        }
        // canonical key: per live id the store fields and the result buffer
        let mut key = Vec::new();
        for (id, m) in &model {
            key.push(*id as u8);
            let k = guard(|| core::using_store(*id, |s| canon_store(s, m.l))).ok()?;
            key.extend_from_slice(&(k.len() as u32).to_le_bytes());
            key.extend(k);
            // model side of the state (see c10.rs)
            for r in &m.recs {
                key.extend_from_slice(&(r.0 as u32).to_le_bytes());
            }
            key.push(0xf7);
            key.extend_from_slice(&(m.limit as u64).to_le_bytes());
            key.push(m.markers as u8);
            key.push(m.l as u8);
            for (rid, t) in &m.last {
                key.extend_from_slice(&(*rid as u32).to_le_bytes());
                key.extend_from_slice(t.as_bytes());
                key.push(0xf9);
            }
            key.push(0xf8);
        }
        cx.tr(1);
        wipe_registry(&self.ids);
        Some(key)
    }
}

pub struct C20 {
    tier: Tier,
    /// ids, merged depth, unmerged depth, start state, index of the first operation after the start state
    /// (the search is partitioned by its first operation so that the partitions run on separate workers)
    configs: Vec<(Vec<usize>, u32, u32, usize, usize)>,
}

/// start states: the empty registry, a non-initial one where store `ids[0]` already holds two records, and one where
/// it holds a crowd of fifteen at limit 1
fn start(ids: &[usize], k: usize) -> Vec<Op> {
    match k {
        0 => vec![],
        1 => vec![Op::Create(ids[0], 0), Op::Add(ids[0], 0), Op::Add(ids[0], 1)],
        // a crowd: fifteen records of which twelve share a gram with "alpha", and limit 1 - the candidate cap of
        // 10 x limit cuts inside the index, so index state left behind by one search can reach the next
        _ => {
            let mut v = vec![Op::Create(ids[0], 0)];
            for r in [0usize, 3, 2, 0, 3, 2, 0, 3, 2, 0, 3, 2, 1, 1, 1] {
                v.push(Op::Add(ids[0], r));
            }
            v.push(Op::Limit(ids[0], 1));
            v
        }
    }
}

impl C20 {
    /// a shallower search over ids {1,2} (used by C01's quick tier, where only panics and digests matter)
    pub fn shallow(d: u32, du: u32) -> C20 {
        let mut configs = Vec::new();
        for k in 0..2 {
            let ids = vec![1, 2];
            let n = RegSys::new(ids.clone()).enabled(&start(&ids, k)).len();
            for first in 0..n {
                configs.push((ids.clone(), d, du, k, first));
            }
        }
        C20 { tier: Tier::Quick, configs }
    }
    pub fn new(tier: Tier) -> C20 {
        let mut configs = Vec::new();
        let mut push = |ids: Vec<usize>, d: u32, du: u32, k: usize| {
            let n = RegSys::new(ids.clone()).enabled(&start(&ids, k)).len();
            for first in 0..n {
                configs.push((ids.clone(), d, du, k, first));
            }
        };
        for k in 0..2 {
            match tier {
                Tier::Quick => push(vec![1, 2], 5, 3, k),
                Tier::Thorough => {
                    // ~17 operations per live id: the state count grows by about x6 per level
                    push(vec![1, 2], 7, 4, k);
                    push(vec![1, 2, 3], 5, 3, k);
                }
            }
        }
        // from the crowd every replay costs seventeen more calls: shallower
        match tier {
            Tier::Quick => push(vec![1, 2], 4, 3, 2),
            Tier::Thorough => push(vec![1, 2], 5, 4, 2),
        }
        C20 { tier, configs }
    }
}

impl Prop for C20 {
    fn doms(&self) -> Vec<Dom> {
        let mut summary: Vec<(Vec<usize>, u32, u32, usize)> = self.configs.iter().map(|c| (c.0.clone(), c.1, c.2, c.3)).collect();
        summary.dedup();
        vec![Dom::new("registry-bfs", self.configs.len() as u64, 1).budget(self.tier.pick(170, 3000)).note(format!(
            "one case per (configuration, first operation); configurations (store ids, merged depth, unmerged depth, start state 0 = empty registry / 1 = store 1 preloaded with two records / 2 = store 1 preloaded with a crowd of fifteen records at limit 1, where the candidate cap cuts): {:?}; ops: create x2 languages, destroy, add_record x4 (one rating tie), set_limit x4 (0, 1, 10, 12), highlight_with x3 (default, a longer ASCII pair, a multi-byte pair), run_search x5 (empty, prefix, whole word, finished word with a trailing space, a word with two vowel typos that only matches under a language's character classes) per id, valid calls only; using_results read for every live id after every operation",
            summary
        ))]
    }
    fn run(&self, _dom: usize, idx: u64, cx: &mut Cx) {
        let (ids, d, du, k, first) = &self.configs[idx as usize];
        let sys = RegSys::new(ids.clone());
        let mut st = start(ids, *k);
        let op = sys.enabled(&st)[*first].clone();
        st.push(op);
        // depth counts operations after the start state: the first one is fixed by the partition
        let out = bfs(&sys, cx, "merged_", vec![st.clone()], *d - 1, true, Duration::from_secs(self.tier.pick(120, 2400)), None);
        cx.class(&format!("bfs:merged:ids{}:start{}:depth{}", ids.len(), k, out.depth_completed + 1));
        let out2 = bfs(&sys, cx, "unmerged_", vec![st], *du - 1, false, Duration::from_secs(self.tier.pick(40, 600)), Some(&out.seen));
        if out2.missing > 0 && !out.capped {
            cx.machinery(format!("C20 dedup cross-check: {} states reached without merging are unknown to the merged search", out2.missing));
        }
        wipe_registry(ids);
    }
    fn rule(&self) -> String {
        "explicit-state BFS over interleaved registry histories (valid calls only) through create_store / destroy_store / add_record / set_limit / highlight_with / run_search on the real thread-local registry, which is wiped before every replay; reference model = map id -> (list store, last results), where run_search stores what a stand-alone fresh Store returns; after the last operation of every history the buffer of EVERY live id is read with using_results and compared. States merged by (id, canonical store key, buffer) and cross-checked by an unmerged search. Non-trivial = a validated state with at least two live stores and a non-empty buffer.".into()
    }
    fn assumptions(&self) -> Vec<String> {
        vec![
            "2-3 store ids, 2 languages, 3 records, 3 queries, depth as reported; the WASM bridge and index.js are pass-through wrappers around these functions and are not executed".into(),
            "the stand-alone reference is the real Store (C10 decides that a Store's answers do not depend on its history)".into(),
        ]
    }
}
