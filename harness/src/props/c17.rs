//! C17 — the Jaccard pre-filter computes the true set similarity (needs hooks).

use crate::engine::*;
use crate::refs::*;
use crate::util::*;
use lucid_suggest_core::verif::Jaccard;
use serde_json::json;

pub const ALPHA: [char; 4] = ['a', 'b', 'c', 'd'];

pub fn long_seqs() -> Vec<String> {
    let mut out: Vec<String> = Vec::new();
    for &n in &[0usize, 1, 19, 20, 21, 22, 39, 40, 41, 64] {
        for s in [
            "a".repeat(n),
            "ab".chars().cycle().take(n).collect::<String>(),
            "abcdefghijklmnopqrstuvwxyz".chars().cycle().take(n).collect::<String>(),
            "zyxwvutsrqponmlkjihgfedcba".chars().cycle().take(n).collect::<String>(),
            "aaabbbccc".chars().cycle().take(n).collect::<String>(),
        ] {
            if !out.contains(&s) {
                out.push(s);
            }
        }
    }
    out
}

pub fn order_menu() -> Vec<(String, String)> {
    let az = |n: usize| "abcdefghijklmnopqrstuvwxyz".chars().cycle().take(n).collect::<String>();
    vec![
        ("".into(), "".into()),
        ("a".into(), "".into()),
        ("a".into(), "a".into()),
        ("ab".into(), "ba".into()),
        ("abc".into(), "bcd".into()),
        ("aabb".into(), "ab".into()),
        ("abcd".into(), "x".into()),
        (az(19), az(5)),
        (az(20), "b".into()),
        (az(21), az(21)),
        ("z".into(), az(21)),
        (az(22), "ab".into()),
        ("a".repeat(40), "b".repeat(3)),
        (az(41), "za".into()),
        ("ab".into(), az(41)),
        ("zzzzzzzzzzzzzzzzzzzzzzzzz".into(), "z".into()),
        // the same second operand twice in a row, the first time against an empty first operand
        ("".into(), "mail".into()),
        ("mall".into(), "mail".into()),
        ("mail".into(), "".into()),
    ]
}

pub struct C17 {
    tier: Tier,
    n: u32,
    seqs: Vec<Vec<char>>,
    long: Vec<String>,
    menu: Vec<(String, String)>,
}

impl C17 {
    pub fn new(tier: Tier) -> C17 {
        Self::with_n(tier, tier.pick(6, 7))
    }
    pub fn with_bound(n: u32) -> C17 {
        Self::with_n(Tier::Quick, n)
    }
    fn subset_letters(&self) -> u32 {
        self.tier.pick(10, 12)
    }
    fn with_n(tier: Tier, n: u32) -> C17 {
        let seqs = (0..seqs_len(4, 0, n)).map(|i| chars(&string_at(&ALPHA, 0, n, i))).collect();
        C17 { tier, n, seqs, long: long_seqs(), menu: order_menu() }
    }
}

/// The subset of the first `k` lower-case letters selected by the bits of `mask`, spelt ascending or descending.
pub fn subset_word(mask: u64, k: u32, descending: bool) -> Vec<char> {
    let mut w: Vec<char> = (0..k).filter(|i| mask >> i & 1 == 1).map(|i| (b'a' + i as u8) as char).collect();
    if descending {
        w.reverse();
    }
    w
}

thread_local! {
    static SHARED: Jaccard<char> = Jaccard::new();
}

pub fn laws(shared: &Jaccard<char>, a: &[char], b: &[char]) -> Result<f64, (&'static str, String)> {
    let fresh0 = Jaccard::new().similarity(a, b);
    let s = match guard(|| shared.similarity(a, b)) {
        Ok(s) => s,
        Err(p) => return Err(("depends-on-earlier-calls", format!("reused instance panics ({}) where a fresh instance returns {}", p.text(), fresh0))),
    };
    let want = ref_jaccard(a, b);
    if s != want {
        return Err(("wrong-similarity", format!("similarity {} but |A∩B|/|A∪B| = {}", s, want)));
    }
    if !(0.0..=1.0).contains(&s) {
        return Err(("out-of-range", format!("{}", s)));
    }
    let fresh = Jaccard::new().similarity(a, b);
    if s != fresh {
        return Err(("depends-on-earlier-calls", format!("reused instance {} fresh instance {}", s, fresh)));
    }
    let back = shared.similarity(b, a);
    if s != back {
        return Err(("asymmetric", format!("s(a,b)={} s(b,a)={}", s, back)));
    }
    // order and repetitions do not matter
    let mut ra: Vec<char> = a.to_vec();
    ra.reverse();
    let mut db: Vec<char> = b.to_vec();
    db.extend_from_slice(b);
    let v = shared.similarity(&ra, &db);
    if v != s {
        return Err(("order-or-repetition-matters", format!("s(a,b)={} s(reverse a, b+b)={}", s, v)));
    }
    // the same operand again right after a call with an empty partner (either side)
    let _ = shared.similarity(&[], b);
    let again = shared.similarity(a, b);
    let _ = shared.similarity(a, &[]);
    let again2 = shared.similarity(a, b);
    if again != s || again2 != s {
        return Err(("depends-on-earlier-calls", format!("s(a,b)={} but {} after s([],b) and {} after s(a,[])", s, again, again2)));
    }
    let rd = shared.rel_dist(a, b);
    if rd != 1.0 - s {
        return Err(("rel-dist", format!("rel_dist {} but 1 - similarity = {}", rd, 1.0 - s)));
    }
    Ok(s)
}

fn verdict(cx: &mut Cx, r: Result<Result<f64, (&'static str, String)>, PanicInfo>, a: &str, b: &str, ctx: &str) {
    cx.validated();
    match r {
        Ok(Ok(s)) => {
            if s > 0.0 && s < 1.0 {
                cx.nontrivial();
                cx.class("partial-overlap");
                if cx.wants_sample() {
                    cx.sample(|| json!({"a": a, "b": b, "similarity": s, "context": ctx}));
                }
            } else if s == 0.0 {
                cx.class("disjoint-or-one-empty");
            } else {
                cx.class("same-set");
            }
        }
        Ok(Err((kind, text))) => {
            if text.contains("reused instance panics") {
                cx.panic_seen(&PanicInfo { loc: "jaccard (reused instance)".into(), msg: text.clone() }, || json!({"call": format!("similarity({:?},{:?}) {}", a, b, ctx)}));
            }
            let sig = format!("C17:{}", kind);
            cx.fail(&sig, || {
                json!({"a": a, "b": b, "context": ctx, "problem": text,
                       "unit_test": format!("// needs RUSTFLAGS=\"--cfg lucid_suggest_verif\"\n#[test]\nfn replay() {{\n    use lucid_suggest_core::verif::Jaccard;\n    let a: Vec<char> = {}.chars().collect();\n    let b: Vec<char> = {}.chars().collect();\n    // {}\n    panic!(\"similarity = {{}}\", Jaccard::new().similarity(&a, &b));\n}}\n", lit(a), lit(b), text)})
            });
        }
        Err(p) => {
            cx.panic_seen(&p, || json!({"call": format!("similarity({:?},{:?}) {}", a, b, ctx)}));
            cx.undecided(&p, || format!("similarity({:?},{:?}) {}", a, b, ctx))
        }
    }
}

impl Prop for C17 {
    fn doms(&self) -> Vec<Dom> {
        let m = self.menu.len() as u64;
        vec![
            Dom::new(format!("pairs:seqs<={}over{{a,b,c,d}}", self.n), self.seqs.len() as u64, 16).note("case = first sequence; inner loop = every second sequence; one reused instance per worker thread"),
            Dom::new("long-families", self.long.len() as u64, 4).note("lengths 0,1,19..22,39..41,64 x 5 shapes (heavy repetition), all ordered pairs"),
            Dom::new(format!("call-orders<={}", self.tier.pick(3, 4)), seqs_len(m, 1, self.tier.pick(3, 4)), 400).note("every sequence of <= 3 similarity calls on ONE fresh instance from a 19-pair menu (long-then-short included)"),
            Dom::new(format!("subset-pairs:{}letters", self.subset_letters()), 1u64 << self.subset_letters(), 8).note("case = first subset of the first k letters of the alphabet (spelt ascending); inner loop = every second subset (spelt descending): all size ratios, sparse against dense, misses next to hits"),
        ]
    }
    fn run(&self, dom: usize, idx: u64, cx: &mut Cx) {
        match dom {
            0 => {
                let a = &self.seqs[idx as usize];
                for b in &self.seqs {
                    cx.eval();
                    cx.state();
                    cx.tr(1);
                    cx.mark(|| format!("similarity({:?},{:?})", a, b));
                    let r = SHARED.with(|sh| guard(|| laws(sh, a, b)));
                    verdict(cx, r, &a.iter().collect::<String>(), &b.iter().collect::<String>(), "pair");
                }
            }
            1 => {
                let a = chars(&self.long[idx as usize]);
                for s in &self.long {
                    let b = chars(s);
                    cx.eval();
                    cx.state();
                    cx.tr(1);
                    cx.mark(|| format!("similarity(long {}, long {})", a.len(), b.len()));
                    let r = SHARED.with(|sh| guard(|| laws(sh, &a, &b)));
                    verdict(cx, r, &self.long[idx as usize], s, "long");
                }
            }
            3 => {
                let k = self.subset_letters();
                let a = subset_word(idx, k, false);
                for j in 0..(1u64 << k) {
                    let b = subset_word(j, k, true);
                    cx.eval();
                    cx.state();
                    cx.tr(1);
                    cx.mark(|| format!("similarity({:?},{:?})", a, b));
                    let r = SHARED.with(|sh| guard(|| laws(sh, &a, &b)));
                    verdict(cx, r, &a.iter().collect::<String>(), &b.iter().collect::<String>(), "subset-pair");
                }
            }
            _ => {
                let m = self.menu.len() as u64;
                let seq = seq_at(m, 1, self.tier.pick(3, 4), idx);
                let inst: Jaccard<char> = Jaccard::new();
                cx.state();
                for (step, &k) in seq.iter().enumerate() {
                    let (a, b) = (chars(&self.menu[k].0), chars(&self.menu[k].1));
                    cx.tr(1);
                    cx.mark(|| format!("history {:?} step {}", seq, step));
                    if step + 1 < seq.len() {
                        if guard(|| inst.similarity(&a, &b)).is_err() {
                            return;
                        }
                        continue;
                    }
                    cx.eval();
                    let r = guard(|| laws(&inst, &a, &b));
                    let hist: Vec<String> = seq.iter().map(|k| format!("similarity({:?},{:?})", self.menu[*k].0, self.menu[*k].1)).collect();
                    verdict(cx, r, &self.menu[k].0, &self.menu[k].1, &format!("after {:?}", &hist[..hist.len() - 1]));
                }
            }
        }
    }
    fn rule(&self) -> String {
        "(i) all ordered pairs of sequences up to the bound over {a,b,c,d} (incl. empty) on one reused instance per worker: equals |A∩B|/|A∪B| computed with BTreeSet, in [0,1], symmetric, unchanged by reversing one argument and doubling the other, equal to a fresh instance, rel_dist = 1 - similarity; (ii) all pairs of long repetitive families around the buffer capacity 20; (iii) every sequence of <= 3 calls on one instance from a 19-pair menu; (iv) every ordered pair of subsets of the first 10 (thorough: 12) letters, so every size ratio up to 10:1 and every pattern of present / absent neighbours. Non-trivial = similarity strictly between 0 and 1.".into()
    }
    fn assumptions(&self) -> Vec<String> {
        vec![
            "drives the private Jaccard<char> through the cfg(lucid_suggest_verif) re-export".into(),
            "longer sequences only through the listed families, call orders only to length 3 (the 'random longer sequences in random call orders' half is not decided here)".into(),
        ]
    }
}
