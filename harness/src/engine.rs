//! Exploration engine: supervisor / worker processes, per-block statistics, violations, replay files,
//! known findings, evidence.  See DESIGN.md §3.

use crate::util::*;
use serde_json::{json, Map, Value};
use std::collections::{BTreeMap, HashMap, VecDeque};
use std::io::{BufRead, BufReader, Write};
use std::process::{Child, Command, Stdio};
use std::sync::{Arc, Mutex};
use std::time::{Duration, Instant};

#[derive(Clone, Copy, PartialEq, Eq, Debug)]
pub enum Tier {
    Quick,
    Thorough,
}
impl Tier {
    pub fn name(self) -> &'static str {
        match self {
            Tier::Quick => "quick",
            Tier::Thorough => "thorough",
        }
    }
    pub fn parse(s: &str) -> Option<Tier> {
        match s {
            "quick" => Some(Tier::Quick),
            "thorough" => Some(Tier::Thorough),
            _ => None,
        }
    }
    pub fn pick<T>(self, q: T, t: T) -> T {
        match self {
            Tier::Quick => q,
            Tier::Thorough => t,
        }
    }
}

/// One indexable domain of a property: cases are `0..len`, dispatched in blocks of `block` cases.
#[derive(Clone, Debug)]
pub struct Dom {
    pub name: String,
    pub len: u64,
    pub block: u64,
    pub budget_s: u64,
    /// BFS-style domains report their own notion of exhaustiveness (depth completed); sweeps are
    /// exhaustive iff every index was visited.
    pub note: String,
}
impl Dom {
    pub fn new(name: impl Into<String>, len: u64, block: u64) -> Dom {
        Dom { name: name.into(), len, block: block.max(1), budget_s: 180, note: String::new() }
    }
    pub fn budget(mut self, s: u64) -> Dom {
        self.budget_s = s;
        self
    }
    pub fn note(mut self, s: impl Into<String>) -> Dom {
        self.note = s.into();
        self
    }
}

pub trait Prop {
    fn doms(&self) -> Vec<Dom>;
    fn run(&self, dom: usize, idx: u64, cx: &mut Cx);
    /// How cases are enumerated and what makes one non-trivial.
    fn rule(&self) -> String;
    fn assumptions(&self) -> Vec<String>;
    /// Does a reproducible process abort / hang of the subject on a case violate *this* property's
    /// statement?  (C01, C19 and the "record is returned" properties: yes.  Everything else: the case is
    /// outside the statement, the run ends without a verdict - exit 2 - and C01 / C19 decide it.)
    fn abort_is_violation(&self) -> bool {
        false
    }
}

// ------------------------------------------------------------------------------------------------
// Statistics
// ------------------------------------------------------------------------------------------------

#[derive(Clone, Debug)]
pub struct Violation {
    pub sig: String,
    pub dom: String,
    pub idx: u64,
    pub detail: Value,
}

#[derive(Default, Clone, Debug)]
pub struct Stats {
    pub evals: u64,
    pub states: u64,
    pub transitions: u64,
    pub validated: u64,
    pub nontrivial: u64,
    pub skipped_pre: u64,
    pub undecided: u64,
    pub visited: BTreeMap<String, u64>,
    pub classes: BTreeMap<String, u64>,
    pub extra: BTreeMap<String, u64>,
    pub probes: Vec<u64>,
    pub samples: Vec<Value>,
    pub notes: Vec<String>,
    pub machinery: Vec<String>,
    pub violations: Vec<Violation>,
    pub violation_count: u64,
    pub vsigs: BTreeMap<String, u64>,
    pub digest: u64,
}

fn merge_map(a: &mut BTreeMap<String, u64>, b: &BTreeMap<String, u64>) {
    for (k, v) in b {
        *a.entry(k.clone()).or_insert(0) += v;
    }
}

impl Stats {
    pub fn merge(&mut self, o: &Stats) {
        self.evals += o.evals;
        self.states += o.states;
        self.transitions += o.transitions;
        self.validated += o.validated;
        self.nontrivial += o.nontrivial;
        self.skipped_pre += o.skipped_pre;
        self.undecided += o.undecided;
        merge_map(&mut self.visited, &o.visited);
        merge_map(&mut self.classes, &o.classes);
        merge_map(&mut self.vsigs, &o.vsigs);
        // `extra` keys starting with "max_" merge by maximum, all others by sum
        for (k, v) in &o.extra {
            let e = self.extra.entry(k.clone()).or_insert(0);
            if k.starts_with("max_") {
                *e = (*e).max(*v)
            } else {
                *e += v
            }
        }
        if self.probes.len() < o.probes.len() {
            self.probes.resize(o.probes.len(), 0);
        }
        for (i, v) in o.probes.iter().enumerate() {
            self.probes[i] += v;
        }
        for s in &o.samples {
            if self.samples.len() < 24 {
                self.samples.push(s.clone());
            }
        }
        for s in &o.notes {
            if self.notes.len() < 12 {
                self.notes.push(s.clone());
            }
        }
        for s in &o.machinery {
            if self.machinery.len() < 12 {
                self.machinery.push(s.clone());
            }
        }
        for v in &o.violations {
            let per_sig = self.violations.iter().filter(|x| x.sig == v.sig).count();
            if per_sig < 3 && self.violations.len() < 60 {
                self.violations.push(v.clone());
            }
        }
        self.violation_count += o.violation_count;
    }

    pub fn to_json(&self) -> Value {
        json!({
            "evals": self.evals, "states": self.states, "transitions": self.transitions,
            "validated": self.validated, "nontrivial": self.nontrivial, "skipped_pre": self.skipped_pre,
            "undecided": self.undecided, "visited": self.visited, "classes": self.classes, "extra": self.extra,
            "probes": self.probes, "samples": self.samples, "notes": self.notes, "machinery": self.machinery,
            "violations": self.violations.iter().map(|v| json!({"sig": v.sig, "dom": v.dom, "idx": v.idx, "detail": v.detail})).collect::<Vec<_>>(),
            "violation_count": self.violation_count, "vsigs": self.vsigs, "digest": format!("{:016x}", self.digest),
        })
    }

    pub fn from_json(v: &Value) -> Stats {
        let u = |k: &str| v[k].as_u64().unwrap_or(0);
        let m = |k: &str| {
            v[k].as_object()
                .map(|o| o.iter().map(|(k, v)| (k.clone(), v.as_u64().unwrap_or(0))).collect::<BTreeMap<_, _>>())
                .unwrap_or_default()
        };
        Stats {
            evals: u("evals"),
            states: u("states"),
            transitions: u("transitions"),
            validated: u("validated"),
            nontrivial: u("nontrivial"),
            skipped_pre: u("skipped_pre"),
            undecided: u("undecided"),
            visited: m("visited"),
            classes: m("classes"),
            extra: m("extra"),
            vsigs: m("vsigs"),
            probes: v["probes"].as_array().map(|a| a.iter().map(|x| x.as_u64().unwrap_or(0)).collect()).unwrap_or_default(),
            samples: v["samples"].as_array().cloned().unwrap_or_default(),
            notes: v["notes"].as_array().map(|a| a.iter().filter_map(|x| x.as_str().map(String::from)).collect()).unwrap_or_default(),
            machinery: v["machinery"].as_array().map(|a| a.iter().filter_map(|x| x.as_str().map(String::from)).collect()).unwrap_or_default(),
            violations: v["violations"]
                .as_array()
                .map(|a| {
                    a.iter()
                        .map(|x| Violation {
                            sig: x["sig"].as_str().unwrap_or("").to_string(),
                            dom: x["dom"].as_str().unwrap_or("").to_string(),
                            idx: x["idx"].as_u64().unwrap_or(0),
                            detail: x["detail"].clone(),
                        })
                        .collect()
                })
                .unwrap_or_default(),
            violation_count: u("violation_count"),
            digest: u64::from_str_radix(v["digest"].as_str().unwrap_or("0"), 16).unwrap_or(0),
        }
    }
}

// ------------------------------------------------------------------------------------------------
// Per-worker context handed to the properties
// ------------------------------------------------------------------------------------------------

pub struct Cx {
    pub tier: Tier,
    /// C01 mode: the oracles of the property being driven are muted; what counts is that every subject
    /// call returns normally, and the digest of everything returned.
    pub c01: bool,
    pub pinpoint: bool,
    pub st: Stats,
    pub cur_dom: String,
    pub cur_idx: u64,
    sample_budget: u32,
}

impl Cx {
    pub fn new(tier: Tier, c01: bool, pinpoint: bool) -> Cx {
        Cx { tier, c01, pinpoint, st: Stats { digest: FNV0, ..Default::default() }, cur_dom: String::new(), cur_idx: 0, sample_budget: 2 }
    }
    pub fn begin_block(&mut self) {
        self.st = Stats { digest: FNV0, ..Default::default() };
        self.sample_budget = 2;
    }
    /// Progress marker inside a case (only evaluated in pinpoint mode, where the supervisor is hunting
    /// for the sub-case that killed a worker).
    #[inline]
    pub fn mark(&self, f: impl FnOnce() -> String) {
        if self.pinpoint {
            eprintln!("M {}", f().replace('\n', " "));
        }
    }
    #[inline]
    pub fn eval(&mut self) {
        self.st.evals += 1;
    }
    #[inline]
    pub fn state(&mut self) {
        self.st.states += 1;
    }
    #[inline]
    pub fn tr(&mut self, n: u64) {
        self.st.transitions += n;
    }
    #[inline]
    pub fn validated(&mut self) {
        self.st.validated += 1;
    }
    #[inline]
    pub fn nontrivial(&mut self) {
        self.st.nontrivial += 1;
    }
    #[inline]
    pub fn skip_pre(&mut self) {
        self.st.skipped_pre += 1;
    }
    pub fn class(&mut self, name: &str) {
        if let Some(c) = self.st.classes.get_mut(name) {
            *c += 1;
        } else {
            self.st.classes.insert(name.to_string(), 1);
        }
    }
    pub fn extra(&mut self, name: &str, n: u64) {
        *self.st.extra.entry(name.to_string()).or_insert(0) += n;
    }
    pub fn extra_max(&mut self, name: &str, n: u64) {
        let e = self.st.extra.entry(name.to_string()).or_insert(0);
        *e = (*e).max(n);
    }
    /// The machinery itself is inconsistent (never a verdict about the subject): the run exits 2.
    pub fn machinery(&mut self, msg: String) {
        self.st.machinery.push(msg);
    }
    pub fn wants_sample(&self) -> bool {
        self.sample_budget > 0
    }
    pub fn sample(&mut self, f: impl FnOnce() -> Value) {
        if self.sample_budget > 0 {
            self.sample_budget -= 1;
            let mut v = f();
            if let Some(o) = v.as_object_mut() {
                o.insert("domain".into(), json!(self.cur_dom));
                o.insert("index".into(), json!(self.cur_idx));
            }
            self.st.samples.push(v);
        }
    }
    /// A subject panic that the current property's statement does not speak about (DESIGN.md §6 C01,
    /// "division of labour"): counted, noted, never a violation of this property.
    pub fn undecided(&mut self, p: &PanicInfo, what: impl FnOnce() -> String) {
        self.st.undecided += 1;
        if self.st.notes.len() < 3 {
            self.st.notes.push(format!("subject panicked ({}) on {} — outside this property's statement, inside C01's domain", p.text(), what()));
        }
    }
    /// Oracle verdict: the property is violated on the current case.
    pub fn fail(&mut self, sig: &str, detail: impl FnOnce() -> Value) {
        if self.c01 {
            return;
        }
        self.record(sig, detail);
    }
    fn record(&mut self, sig: &str, detail: impl FnOnce() -> Value) {
        self.st.violation_count += 1;
        *self.st.vsigs.entry(sig.to_string()).or_insert(0) += 1;
        let per_sig = self.st.violations.iter().filter(|v| v.sig == sig).count();
        if per_sig < 2 && self.st.violations.len() < 12 {
            self.st.violations.push(Violation { sig: sig.to_string(), dom: self.cur_dom.clone(), idx: self.cur_idx, detail: detail() });
        }
    }
    /// For drivers that call the subject themselves (BFS replays): report a caught panic.  In C01 mode
    /// it is the violation; otherwise it only perturbs the digest and the caller decides.
    pub fn panic_seen(&mut self, p: &PanicInfo, what: impl FnOnce() -> Value) {
        fnv(&mut self.st.digest, b"panic");
        if self.c01 {
            let sig = format!("C01:{}", p.sig());
            let text = p.text();
            self.record(&sig, || {
                let mut v = what();
                if let Some(o) = v.as_object_mut() {
                    o.insert("panic".into(), json!(text));
                }
                v
            });
        }
    }
    pub fn digest_hits(&mut self, h: &Hits) {
        let d = &mut self.st.digest;
        for (id, title) in h {
            fnv(d, &id.to_le_bytes());
            fnv(d, title.as_bytes());
            fnv(d, &[0xff]);
        }
        fnv(d, &[0xfe]);
    }
    /// Any subject call.  Counts one transition; in C01 mode an unwinding panic is the violation.
    pub fn call<T>(&mut self, what: impl Fn() -> String, f: impl FnOnce() -> T) -> Result<T, PanicInfo> {
        self.mark(&what);
        self.st.transitions += 1;
        let r = guard(f);
        if let Err(p) = &r {
            fnv(&mut self.st.digest, b"panic");
            if self.c01 {
                let sig = format!("C01:{}", p.sig());
                let text = p.text();
                self.record(&sig, || json!({"call": what(), "panic": text}));
            }
        }
        r
    }
    pub fn build(&mut self, l: L, recs: &[Rec], limit: Option<usize>, markers: Option<(&str, &str)>) -> Result<St, PanicInfo> {
        self.mark(|| format!("build lang={} records={:?} limit={:?} markers={:?}", l.tag(), recs, limit, markers));
        self.st.transitions += recs.len() as u64;
        let r = St::with(l, recs, limit, markers);
        if let Err(p) = &r {
            fnv(&mut self.st.digest, b"panic");
            if self.c01 {
                let sig = format!("C01:{}", p.sig());
                let text = p.text();
                self.record(&sig, || json!({"lang": l.tag(), "ops": ops_json(recs, limit, markers, &[]), "panic": text, "unit_test": unit_test_panic(l, recs, limit, markers, &[])}));
            }
        }
        r
    }
    pub fn add(&mut self, st: &mut St, r: &Rec) -> Result<(), PanicInfo> {
        self.mark(|| format!("add {:?}", r));
        self.st.transitions += 1;
        let res = st.add(r);
        if let Err(p) = &res {
            fnv(&mut self.st.digest, b"panic");
            if self.c01 {
                let sig = format!("C01:{}", p.sig());
                let text = p.text();
                let l = st.l;
                self.record(&sig, || json!({"lang": l.tag(), "call": format!("add {:?}", r), "panic": text}));
            }
        }
        res
    }
    /// `build` for properties whose statement does not speak about panics: a failing add is noted
    /// (undecided, inside C01's domain) and the case is dropped.
    pub fn build_noted(&mut self, l: L, recs: &[Rec], limit: Option<usize>, markers: Option<(&str, &str)>) -> Option<St> {
        match self.build(l, recs, limit, markers) {
            Ok(st) => Some(st),
            Err(p) => {
                self.undecided(&p, || format!("building the store lang={} records={:?}", l.tag(), recs));
                None
            }
        }
    }
    /// Search through the real tokeniser + store.  `recs` etc. are only used to describe the case.
    pub fn search(&mut self, st: &mut St, q: &str) -> Result<Hits, PanicInfo> {
        self.mark(|| format!("search lang={} query={:?} store={}", st.l.tag(), q, describe_store(st)));
        self.st.transitions += 1;
        let r = st.search(q);
        match &r {
            Ok(h) => self.digest_hits(h),
            Err(p) => {
                fnv(&mut self.st.digest, b"panic");
                if self.c01 {
                    let sig = format!("C01:{}", p.sig());
                    let text = p.text();
                    let (l, recs, limit, markers) = snapshot(st);
                    self.record(&sig, || {
                        json!({"lang": l.tag(), "ops": ops_json(&recs, Some(limit), Some((&markers.0, &markers.1)), &[q]), "panic": text,
                               "unit_test": unit_test_panic(l, &recs, Some(limit), Some((&markers.0, &markers.1)), &[q])})
                    });
                }
            }
        }
        r
    }
}

pub fn snapshot(st: &St) -> (L, Vec<Rec>, usize, (String, String)) {
    let recs = st.store.records.iter().map(|r| (r.id, r.title.source.iter().filter(|c| **c != '\0').collect::<String>(), r.rating)).collect();
    let markers = (st.store.dividers.0.iter().collect::<String>(), st.store.dividers.1.iter().collect::<String>());
    (st.l, recs, st.store.limit, markers)
}

pub fn describe_store(st: &St) -> String {
    let (_, recs, limit, markers) = snapshot(st);
    format!("{{records={:?} limit={} markers={:?}}}", recs, limit, markers)
}

pub fn ops_json(recs: &[Rec], limit: Option<usize>, markers: Option<(&str, &str)>, queries: &[&str]) -> Value {
    let mut ops = Vec::new();
    for r in recs {
        ops.push(json!({"op": "add", "id": r.0, "title": r.1, "rating": r.2}));
    }
    if let Some(l) = limit {
        ops.push(json!({"op": "limit", "value": l}));
    }
    if let Some((a, b)) = markers {
        ops.push(json!({"op": "markers", "left": a, "right": b}));
    }
    for q in queries {
        ops.push(json!({"op": "search", "query": q}));
    }
    Value::Array(ops)
}

/// Text of a plain `#[test]` (public API only) that drives the same calls without the explorer.
pub fn unit_test_body(l: L, recs: &[Rec], limit: Option<usize>, markers: Option<(&str, &str)>, queries: &[&str], tail: &str) -> String {
    let mut s = String::new();
    s.push_str("#[test]\nfn replay() {\n    use lucid_suggest_core::*;\n");
    s.push_str(&format!("    let mut store = Store::new();\n    store.lang = {};\n", l.ctor()));
    for r in recs {
        s.push_str(&format!("    store.add(Record::new({}, {}, {}, &store.lang));\n", r.0, lit(&r.1), r.2));
    }
    if let Some(l) = limit {
        s.push_str(&format!("    store.limit = {};\n", l));
    }
    if let Some((a, b)) = markers {
        s.push_str(&format!("    store.highlight_with(({}, {}));\n", lit(a), lit(b)));
    }
    for (i, q) in queries.iter().enumerate() {
        s.push_str(&format!("    let q{i} = tokenize_query({}, &store.lang);\n    let hits{i} = store.search(&q{i}.to_ref()).into_iter().map(|r| (r.id, r.title)).collect::<Vec<_>>();\n", lit(q)));
    }
    s.push_str(tail);
    s.push_str("}\n");
    s
}

pub fn unit_test_panic(l: L, recs: &[Rec], limit: Option<usize>, markers: Option<(&str, &str)>, queries: &[&str]) -> String {
    unit_test_body(l, recs, limit, markers, queries, "    // expected: reaches this line without panicking (build with overflow-checks / debug-assertions on)\n")
}

// ------------------------------------------------------------------------------------------------
// Worker
// ------------------------------------------------------------------------------------------------

pub struct WorkerOpts {
    pub tier: Tier,
    pub c01: bool,
    pub pinpoint: bool,
    pub trace: bool,
}

pub fn worker_main(prop: &dyn Prop, opts: WorkerOpts) {
    install_panic_hook();
    let doms = prop.doms();
    let mut cx = Cx::new(opts.tier, opts.c01, opts.pinpoint);
    let stdin = std::io::stdin();
    let stdout = std::io::stdout();
    for line in stdin.lock().lines() {
        let line = line.unwrap();
        let parts: Vec<&str> = line.split_whitespace().collect();
        if parts.is_empty() {
            continue;
        }
        if parts[0] == "Q" {
            break;
        }
        let dom: usize = parts[0].parse().unwrap();
        let start: u64 = parts[1].parse().unwrap();
        let end: u64 = parts[2].parse().unwrap();
        cx.begin_block();
        cx.cur_dom = doms[dom].name.clone();
        #[cfg(lucid_suggest_verif)]
        let _ = lucid_suggest_core::verif::take_hits();
        for idx in start..end {
            if opts.pinpoint {
                eprintln!("I {}", idx);
            }
            cx.cur_idx = idx;
            let before = cx.st.digest;
            if opts.trace {
                cx.st.digest = FNV0;
            }
            prop.run(dom, idx, &mut cx);
            if opts.trace {
                eprintln!("G {} {:016x}", idx, cx.st.digest);
                let d = cx.st.digest;
                cx.st.digest = before;
                fnv(&mut cx.st.digest, &d.to_le_bytes());
            }
        }
        *cx.st.visited.entry(doms[dom].name.clone()).or_insert(0) += end - start;
        #[cfg(lucid_suggest_verif)]
        {
            cx.st.probes = lucid_suggest_core::verif::take_hits().to_vec();
        }
        let mut out = stdout.lock();
        writeln!(out, "D {}", cx.st.to_json()).unwrap();
        out.flush().unwrap();
    }
}

/// Run one case in this process and print the violations it produces (used by `replay`).
pub fn case_main(prop: &dyn Prop, tier: Tier, c01: bool, dom_name: &str, idx: u64) -> i32 {
    install_panic_hook();
    let doms = prop.doms();
    let Some(dom) = doms.iter().position(|d| d.name == dom_name) else {
        eprintln!("unknown domain {}", dom_name);
        return 2;
    };
    let mut cx = Cx::new(tier, c01, false);
    cx.cur_dom = dom_name.to_string();
    cx.cur_idx = idx;
    prop.run(dom, idx, &mut cx);
    let v: Vec<Value> = cx.st.violations.iter().map(|v| json!({"sig": v.sig, "detail": v.detail})).collect();
    println!("{}", json!({"violations": v, "violation_count": cx.st.violation_count, "digest": format!("{:016x}", cx.st.digest), "evals": cx.st.evals}));
    0
}

// ------------------------------------------------------------------------------------------------
// Supervisor
// ------------------------------------------------------------------------------------------------

#[derive(Clone, Debug)]
struct Block {
    dom: usize,
    start: u64,
    end: u64,
}

struct Shared {
    queue: VecDeque<Block>,
    total: Stats,
    digests: HashMap<(usize, u64, u64), u64>,
    crashes: Vec<Value>,
    machinery_errors: Vec<String>,
    stop: bool,
    blocks_done: u64,
}

pub struct RunCfg {
    pub prop_id: String,
    pub tier: Tier,
    pub c01: bool,
    pub jobs: usize,
    pub seed: u64,
    pub wall_cap_s: Option<u64>,
}

fn spawn_worker(exe: &str, prop_id: &str, tier: Tier, c01: bool, pinpoint: bool, trace: bool) -> std::io::Result<Child> {
    let mut cmd = Command::new(exe);
    cmd.arg("worker").arg(prop_id).arg(tier.name());
    if c01 {
        cmd.arg("--c01");
    }
    if pinpoint {
        cmd.arg("--pinpoint");
    }
    if trace {
        cmd.arg("--trace");
    }
    cmd.env("RUST_BACKTRACE", "0");
    cmd.stdin(Stdio::piped()).stdout(Stdio::piped());
    cmd.stderr(if pinpoint || trace { Stdio::piped() } else { Stdio::null() });
    cmd.spawn()
}

/// Run one block in a fresh child with progress marks; returns (died, last index, last mark, status text).
fn pinpoint_block(exe: &str, cfg: &RunCfg, b: &Block, budget: Duration) -> (bool, Option<u64>, String, String) {
    let mut child = match spawn_worker(exe, &cfg.prop_id, cfg.tier, cfg.c01, true, false) {
        Ok(c) => c,
        Err(e) => return (false, None, String::new(), format!("spawn failed: {}", e)),
    };
    let mut stdin = child.stdin.take().unwrap();
    let _ = writeln!(stdin, "{} {} {}", b.dom, b.start, b.end);
    let _ = writeln!(stdin, "Q");
    drop(stdin);
    let stderr = child.stderr.take().unwrap();
    let last = Arc::new(Mutex::new((None::<u64>, String::new())));
    let last2 = last.clone();
    let t = std::thread::spawn(move || {
        for line in BufReader::new(stderr).lines().map_while(Result::ok) {
            let mut l = last2.lock().unwrap();
            if let Some(rest) = line.strip_prefix("I ") {
                l.0 = rest.trim().parse().ok();
                l.1.clear();
            } else if let Some(rest) = line.strip_prefix("M ") {
                l.1 = rest.to_string();
            }
        }
    });
    // drain stdout so the child cannot block on it
    let stdout = child.stdout.take().unwrap();
    let t2 = std::thread::spawn(move || {
        let mut ok = false;
        for line in BufReader::new(stdout).lines().map_while(Result::ok) {
            if line.starts_with("D ") {
                ok = true;
            }
        }
        ok
    });
    let t0 = Instant::now();
    let mut timed_out = false;
    let status = loop {
        match child.try_wait() {
            Ok(Some(s)) => break Some(s),
            Ok(None) => {
                if t0.elapsed() > budget {
                    let _ = child.kill();
                    timed_out = true;
                    let _ = child.wait();
                    break None;
                }
                std::thread::sleep(Duration::from_millis(20));
            }
            Err(_) => break None,
        }
    };
    let _ = t.join();
    let completed = t2.join().unwrap_or(false);
    let l = last.lock().unwrap().clone();
    let text = if timed_out {
        format!("timeout after {} s", budget.as_secs())
    } else {
        match status {
            Some(s) => format!("{}", s),
            None => "unknown".into(),
        }
    };
    let died = timed_out || !completed || !status.map(|s| s.success()).unwrap_or(false);
    (died, l.0, l.1, text)
}

pub fn exe_path() -> String {
    std::env::current_exe().unwrap().to_string_lossy().to_string()
}

fn run_phase(exe: &str, cfg: &RunCfg, doms: &[Dom], blocks: Vec<Block>, deadline: Option<Instant>) -> Shared {
    let shared = Arc::new(Mutex::new(Shared {
        queue: blocks.into(),
        total: Stats::default(),
        digests: HashMap::new(),
        crashes: Vec::new(),
        machinery_errors: Vec::new(),
        stop: false,
        blocks_done: 0,
    }));
    let mut handles = Vec::new();
    for _w in 0..cfg.jobs {
        let shared = shared.clone();
        let exe = exe.to_string();
        let doms = doms.to_vec();
        let cfg = RunCfg { prop_id: cfg.prop_id.clone(), tier: cfg.tier, c01: cfg.c01, jobs: cfg.jobs, seed: cfg.seed, wall_cap_s: cfg.wall_cap_s };
        handles.push(std::thread::spawn(move || {
            let mut child: Option<(Arc<Mutex<Child>>, std::process::ChildStdin, BufReader<std::process::ChildStdout>)> = None;
            loop {
                let b = {
                    let mut s = shared.lock().unwrap();
                    if s.stop {
                        None
                    } else if deadline.map(|d| Instant::now() > d).unwrap_or(false) {
                        None
                    } else {
                        s.queue.pop_front()
                    }
                };
                let Some(b) = b else { break };
                if child.is_none() {
                    match spawn_worker(&exe, &cfg.prop_id, cfg.tier, cfg.c01, false, false) {
                        Ok(mut c) => {
                            let i = c.stdin.take().unwrap();
                            let o = BufReader::new(c.stdout.take().unwrap());
                            child = Some((Arc::new(Mutex::new(c)), i, o));
                        }
                        Err(e) => {
                            let mut s = shared.lock().unwrap();
                            s.machinery_errors.push(format!("cannot spawn worker: {}", e));
                            s.stop = true;
                            break;
                        }
                    }
                }
                let budget = Duration::from_secs(doms[b.dom].budget_s);
                let (ch, stdin, stdout) = child.as_mut().unwrap();
                // watchdog
                let done_flag = Arc::new(Mutex::new(false));
                let (df, chw) = (done_flag.clone(), ch.clone());
                let wd = std::thread::spawn(move || {
                    let t0 = Instant::now();
                    loop {
                        std::thread::sleep(Duration::from_millis(50));
                        if *df.lock().unwrap() {
                            return false;
                        }
                        if t0.elapsed() > budget {
                            let _ = chw.lock().unwrap().kill();
                            return true;
                        }
                    }
                });
                let sent = writeln!(stdin, "{} {} {}", b.dom, b.start, b.end).and_then(|_| stdin.flush());
                let mut got: Option<Stats> = None;
                if sent.is_ok() {
                    let mut line = String::new();
                    loop {
                        line.clear();
                        match stdout.read_line(&mut line) {
                            Ok(0) | Err(_) => break,
                            Ok(_) => {
                                if let Some(rest) = line.strip_prefix("D ") {
                                    if let Ok(v) = serde_json::from_str::<Value>(rest) {
                                        got = Some(Stats::from_json(&v));
                                    }
                                    break;
                                }
                            }
                        }
                    }
                }
                *done_flag.lock().unwrap() = true;
                let timed_out = wd.join().unwrap_or(false);
                match got {
                    Some(st) => {
                        let mut s = shared.lock().unwrap();
                        s.digests.insert((b.dom, b.start, b.end), st.digest);
                        s.total.merge(&st);
                        s.blocks_done += 1;
                    }
                    None => {
                        // the worker died (abort, signal, kill by watchdog): find the case
                        if let Some((c, _, _)) = child.take() {
                            let _ = c.lock().unwrap().kill();
                            let _ = c.lock().unwrap().wait();
                        }
                        let (died1, idx1, mark1, status1) = pinpoint_block(&exe, &cfg, &b, budget);
                        if !died1 {
                            let mut s = shared.lock().unwrap();
                            s.machinery_errors.push(format!(
                                "worker died on block {}[{}..{}] ({}) but the re-run completed: not reproducible, no verdict",
                                doms[b.dom].name, b.start, b.end, if timed_out { "watchdog timeout" } else { "unexpected exit" }
                            ));
                            // the re-run's statistics are not collected: count the block as not visited
                            continue;
                        }
                        let one = Block { dom: b.dom, start: idx1.unwrap_or(b.start), end: idx1.unwrap_or(b.start) + 1 };
                        let (died2, idx2, mark2, status2) = pinpoint_block(&exe, &cfg, &one, budget);
                        let mut s = shared.lock().unwrap();
                        if died2 && idx2 == idx1 {
                            let kind = if status2.starts_with("timeout") { "hang" } else { "abort" };
                            s.crashes.push(json!({
                                "kind": kind, "dom": doms[b.dom].name, "idx": idx1, "mark": if mark2.is_empty() { mark1 } else { mark2 },
                                "status": status2, "first_status": status1,
                            }));
                            // keep exploring the rest of the block around the fatal case
                            if let Some(i) = idx1 {
                                if s.crashes.len() < 6 {
                                    if i > b.start {
                                        s.queue.push_back(Block { dom: b.dom, start: b.start, end: i });
                                    }
                                    if i + 1 < b.end {
                                        s.queue.push_back(Block { dom: b.dom, start: i + 1, end: b.end });
                                    }
                                } else {
                                    s.stop = true;
                                }
                            }
                        } else {
                            s.machinery_errors.push(format!(
                                "worker death on {}[{}..{}] at index {:?} did not reproduce in isolation ({} / {})",
                                doms[b.dom].name, b.start, b.end, idx1, status1, status2
                            ));
                        }
                    }
                }
            }
            if let Some((c, mut stdin, _)) = child.take() {
                let _ = writeln!(stdin, "Q");
                drop(stdin);
                let _ = c.lock().unwrap().wait();
            }
        }));
    }
    for h in handles {
        let _ = h.join();
    }
    Arc::try_unwrap(shared).ok().unwrap().into_inner().unwrap()
}

fn known_findings() -> (Vec<(String, String, String)>, Vec<String>) {
    // (property, sig, text) for open findings; raw lines of fixed findings
    let mut open = Vec::new();
    let mut fixed = Vec::new();
    // the committed file; the environment override exists only so that the mechanism itself can be tested
    let path = std::env::var("LSMC_KNOWN_FINDINGS").unwrap_or_else(|_| "/verif/KNOWN_FINDINGS.txt".to_string());
    let text = std::fs::read_to_string(path).unwrap_or_default();
    for line in text.lines() {
        let line = line.trim();
        if let Some(rest) = line.strip_prefix("open:") {
            let rest = rest.trim();
            let mut prop = String::new();
            let mut sig = String::new();
            let mut words = Vec::new();
            for w in rest.split_whitespace() {
                if let Some(p) = w.strip_prefix("property=") {
                    prop = p.to_string();
                } else if let Some(s) = w.strip_prefix("sig=") {
                    sig = s.to_string();
                } else {
                    words.push(w);
                }
            }
            if !prop.is_empty() && !sig.is_empty() {
                open.push((prop, sig, words.join(" ")));
            }
        } else if line.starts_with("fixed:") {
            fixed.push(line.to_string());
        }
    }
    (open, fixed)
}

fn shuffle<T>(v: &mut Vec<T>, seed: u64) {
    if seed == 0 {
        return;
    }
    let mut x = seed ^ 0x9e3779b97f4a7c15;
    for i in (1..v.len()).rev() {
        x ^= x << 13;
        x ^= x >> 7;
        x ^= x << 17;
        let j = (x % (i as u64 + 1)) as usize;
        v.swap(i, j);
    }
}

pub fn supervisor_main(prop: &dyn Prop, cfg: RunCfg) -> i32 {
    let t0 = Instant::now();
    let exe = exe_path();
    let doms = prop.doms();
    let mut blocks = Vec::new();
    for (di, d) in doms.iter().enumerate() {
        let mut s = 0;
        while s < d.len {
            let e = (s + d.block).min(d.len);
            blocks.push(Block { dom: di, start: s, end: e });
            s = e;
        }
    }
    // Seed only permutes dispatch order; the set of explored cases is seed-independent.
    shuffle(&mut blocks, cfg.seed);
    let n_blocks = blocks.len();
    let deadline = cfg.wall_cap_s.map(|s| t0 + Duration::from_secs(s));
    let total_cases: u64 = doms.iter().map(|d| d.len).sum();
    eprintln!("[lsmc] {} {}: {} domains, {} cases in {} blocks, {} workers", cfg.prop_id, cfg.tier.name(), doms.len(), total_cases, n_blocks, cfg.jobs);

    let mut sh = run_phase(&exe, &cfg, &doms, blocks.clone(), deadline);
    let own = sh.total.machinery.clone();
    sh.machinery_errors.extend(own);
    let mut violations: Vec<Violation> = sh.total.violations.clone();
    let mut vsigs = sh.total.vsigs.clone();
    for c in &sh.crashes {
        let kind = c["kind"].as_str().unwrap_or("abort");
        if !prop.abort_is_violation() {
            sh.machinery_errors.push(format!(
                "the subject killed the process ({}) at {}[{}] ({}); that is outside this property's statement - no verdict from this check, C01 / C19 decide it",
                kind, c["dom"].as_str().unwrap_or(""), c["idx"], c["mark"].as_str().unwrap_or("")
            ));
            continue;
        }
        let sig = format!("{}:{}@{}", cfg.prop_id, kind, c["dom"].as_str().unwrap_or(""));
        *vsigs.entry(sig.clone()).or_insert(0) += 1;
        violations.push(Violation { sig, dom: c["dom"].as_str().unwrap_or("").to_string(), idx: c["idx"].as_u64().unwrap_or(0), detail: c.clone() });
    }

    // C01: second phase in the shipping build, block digests must agree
    let mut shipping_info = Value::Null;
    if cfg.c01 {
        let ship = std::env::var("LSMC_SHIPPING").unwrap_or_else(|_| "/verif/target/shipping/shipping/lsmc".to_string());
        if !std::path::Path::new(&ship).exists() {
            sh.machinery_errors.push(format!("shipping build {} is missing", ship));
        } else {
            // domains available in the shipping build (hook-dependent ones are compiled out)
            let out = Command::new(&ship).arg("doms").arg(&cfg.prop_id).arg(cfg.tier.name()).output();
            let names: Vec<String> = out.ok().map(|o| String::from_utf8_lossy(&o.stdout).lines().map(|s| s.to_string()).collect()).unwrap_or_default();
            // the shipping binary indexes domains by its own list: map by name
            let mut blocks2 = Vec::new();
            let mut back = HashMap::new();
            for b in &blocks {
                if !sh.digests.contains_key(&(b.dom, b.start, b.end)) {
                    continue;
                }
                if let Some(j) = names.iter().position(|n| *n == doms[b.dom].name) {
                    blocks2.push(Block { dom: j, start: b.start, end: b.end });
                    back.insert((j, b.start, b.end), b.dom);
                }
            }
            let doms2: Vec<Dom> = names.iter().map(|n| doms.iter().find(|d| d.name == *n).cloned().unwrap_or(Dom::new(n.clone(), 0, 1))).collect();
            let n2 = blocks2.len();
            let sh2 = run_phase(&ship, &cfg, &doms2, blocks2, deadline);
            let mut compared = 0u64;
            let mut mismatches = Vec::new();
            for ((j, s, e), d2) in &sh2.digests {
                let di = back[&(*j, *s, *e)];
                if let Some(d1) = sh.digests.get(&(di, *s, *e)) {
                    compared += 1;
                    if d1 != d2 {
                        mismatches.push((di, *j, *s, *e));
                    }
                }
            }
            mismatches.sort();
            for (di, j, s, e) in mismatches.iter().take(4) {
                // bisect by per-case digests
                let a = trace_block(&exe, &cfg, *di, *s, *e);
                let b = trace_block(&ship, &cfg, *j, *s, *e);
                let first = (*s..*e).find(|i| a.get(i) != b.get(i));
                let sig = format!("C01:checked!=shipping@{}", doms[*di].name);
                *vsigs.entry(sig.clone()).or_insert(0) += 1;
                violations.push(Violation {
                    sig,
                    dom: doms[*di].name.clone(),
                    idx: first.unwrap_or(*s),
                    detail: json!({"kind": "digest mismatch between the checked and the shipping build", "block": [s, e], "first_differing_index": first}),
                });
            }
            for c in &sh2.crashes {
                let sig = format!("C01:shipping-{}@{}", c["kind"].as_str().unwrap_or("abort"), c["dom"].as_str().unwrap_or(""));
                *vsigs.entry(sig.clone()).or_insert(0) += 1;
                violations.push(Violation { sig, dom: c["dom"].as_str().unwrap_or("").to_string(), idx: c["idx"].as_u64().unwrap_or(0), detail: c.clone() });
            }
            // panics caught in the shipping build are violations too
            for v in &sh2.total.violations {
                let mut v = v.clone();
                v.sig = format!("{}(shipping)", v.sig);
                *vsigs.entry(v.sig.clone()).or_insert(0) += 1;
                violations.push(v);
            }
            sh.machinery_errors.extend(sh2.machinery_errors.iter().cloned());
            shipping_info = json!({"binary": ship, "blocks": n2, "blocks_compared": compared, "digest_mismatches": mismatches.len(),
                                   "transitions": sh2.total.transitions, "domains": names});
        }
    }

    // exhaustiveness
    let mut dom_reports = Vec::new();
    let mut exhaustive = true;
    for d in &doms {
        let visited = sh.total.visited.get(&d.name).copied().unwrap_or(0);
        if visited != d.len {
            exhaustive = false;
        }
        dom_reports.push(json!({"id": d.name, "len": d.len, "visited": visited, "note": d.note}));
    }
    if sh.total.extra.get("capped").copied().unwrap_or(0) > 0 {
        exhaustive = false;
    }

    // known findings
    let (open, _fixed) = known_findings();
    let mut new_violations = Vec::new();
    let mut known_lines = Vec::new();
    for v in &violations {
        if let Some((_, sig, text)) = open.iter().find(|(p, s, _)| *p == cfg.prop_id && v.sig.contains(s.as_str())) {
            let line = format!("KNOWN-FINDING: property={} {} [{}]", cfg.prop_id, text, sig);
            if !known_lines.contains(&line) {
                known_lines.push(line);
            }
        } else {
            new_violations.push(v.clone());
        }
    }
    let unknown_count: u64 = vsigs
        .iter()
        .filter(|(s, _)| !open.iter().any(|(p, os, _)| *p == cfg.prop_id && s.contains(os.as_str())))
        .map(|(_, n)| *n)
        .sum();

    // replay files
    let out_dir = std::env::var("LSMC_OUT_DIR").unwrap_or_else(|_| "/verif".to_string());
    let _ = std::fs::create_dir_all(format!("{}/replays", out_dir));
    let mut lines = Vec::new();
    let mut seen_sigs = Vec::new();
    // shortest signature first: for history searches that is the shortest counterexample
    new_violations.sort_by_key(|v| (v.sig.chars().count(), v.sig.clone(), v.idx));
    for v in &new_violations {
        if seen_sigs.iter().filter(|s| **s == v.sig).count() >= 1 || lines.len() >= 5 {
            continue;
        }
        seen_sigs.push(v.sig.clone());
        let mut h = FNV0;
        fnv(&mut h, v.sig.as_bytes());
        fnv(&mut h, v.dom.as_bytes());
        fnv(&mut h, &v.idx.to_le_bytes());
        let path = format!("{}/replays/{}-{:08x}.json", out_dir, cfg.prop_id, h as u32);
        let body = json!({
            "property": cfg.prop_id, "tier": cfg.tier.name(), "c01_mode": cfg.c01, "domain": v.dom, "index": v.idx, "signature": v.sig,
            "detail": v.detail, "replay_cmd": format!("/verif/bin/check replay {}", path),
        });
        let _ = std::fs::write(&path, serde_json::to_string_pretty(&body).unwrap());
        lines.push(format!("VIOLATION property={} replay={}", cfg.prop_id, path));
    }

    let wall = t0.elapsed().as_secs_f64();
    let st = &sh.total;
    let mut probes = Map::new();
    let names = ["unchecked_matrix", "unchecked_costs", "unchecked_jaccard", "unchecked_counts", "matrix_growth", "joined_record", "joined_query", "func_defer", "topk_truncate", "topixs_cache_hit", "topixs_recompute"];
    for (i, n) in names.iter().enumerate() {
        probes.insert(n.to_string(), json!(st.probes.get(i).copied().unwrap_or(0)));
    }
    let mut samples = st.samples.clone();
    if samples.is_empty() {
        samples.push(json!({"note": "no sample recorded"}));
    }
    samples.truncate(12);
    let capped = deadline.map(|d| Instant::now() > d).unwrap_or(false) && !exhaustive;
    let evidence = json!({
        "property_id": cfg.prop_id,
        "tier": cfg.tier.name(),
        "seed": cfg.seed,
        "level": "model_checking",
        "coverage": {
            "states": st.states,
            "transitions": st.transitions,
            "traces_validated_against_impl": st.validated,
            "samples": samples,
            "evaluations": st.evals,
            "distinct_nontrivial": st.nontrivial,
            "rule": prop.rule(),
            "exhaustive": exhaustive && sh.machinery_errors.is_empty(),
            "wall_cap_hit": capped,
            "domains": dom_reports,
            "blocks": {"total": n_blocks, "completed": sh.blocks_done},
            "outcome_classes": st.classes,
            "skipped_by_precondition": st.skipped_pre,
            "undecided_panics": st.undecided,
            "counters": st.extra,
            "probes": Value::Object(probes),
            "notes": st.notes,
            "shipping_build": shipping_info,
            "violation_signatures": vsigs,
            "machinery_errors": sh.machinery_errors,
            "explanation": "every trace is an execution of the real code (no separate model): 'states' = distinct closed-system configurations visited, 'transitions' = real API calls executed, 'traces_validated_against_impl' = executions whose observations were compared with the reference model / oracle",
        },
        "assumptions": prop.assumptions(),
        "wall_s": (wall * 100.0).round() / 100.0,
        "violations": unknown_count,
        "known_findings": known_lines,
    });
    let _ = std::fs::create_dir_all(format!("{}/evidence", out_dir));
    let path = format!("{}/evidence/{}.json", out_dir, cfg.prop_id);
    let _ = std::fs::write(&path, serde_json::to_string_pretty(&evidence).unwrap() + "\n");

    for n in &st.notes {
        println!("NOTE: {}", n);
    }
    for l in &known_lines {
        println!("{}", l);
    }
    for l in &lines {
        println!("{}", l);
    }
    println!(
        "[lsmc] {} {}: states={} transitions={} validated={} evaluations={} nontrivial={} skipped_pre={} undecided_panics={} outcome_classes={} exhaustive={} violations={} wall={:.1}s",
        cfg.prop_id, cfg.tier.name(), st.states, st.transitions, st.validated, st.evals, st.nontrivial, st.skipped_pre, st.undecided,
        st.classes.len(), exhaustive, unknown_count, wall
    );
    if !sh.machinery_errors.is_empty() {
        for e in &sh.machinery_errors {
            eprintln!("MACHINERY: {}", e);
        }
        if lines.is_empty() {
            return 2;
        }
    }
    if !lines.is_empty() {
        return 1;
    }
    0
}

fn trace_block(exe: &str, cfg: &RunCfg, dom: usize, s: u64, e: u64) -> HashMap<u64, String> {
    let mut out = HashMap::new();
    let Ok(mut child) = spawn_worker(exe, &cfg.prop_id, cfg.tier, cfg.c01, false, true) else { return out };
    let mut stdin = child.stdin.take().unwrap();
    let _ = writeln!(stdin, "{} {} {}", dom, s, e);
    let _ = writeln!(stdin, "Q");
    drop(stdin);
    let stderr = child.stderr.take().unwrap();
    let stdout = child.stdout.take().unwrap();
    let t = std::thread::spawn(move || for _ in BufReader::new(stdout).lines() {});
    for line in BufReader::new(stderr).lines().map_while(Result::ok) {
        if let Some(rest) = line.strip_prefix("G ") {
            let mut it = rest.split_whitespace();
            if let (Some(i), Some(d)) = (it.next(), it.next()) {
                if let Ok(i) = i.parse() {
                    out.insert(i, d.to_string());
                }
            }
        }
    }
    let _ = child.wait();
    let _ = t.join();
    out
}

/// `replay <file>`: run the recorded case twice in child processes, require identical observations.
pub fn replay_main(path: &str) -> i32 {
    let Ok(text) = std::fs::read_to_string(path) else {
        eprintln!("cannot read {}", path);
        return 2;
    };
    let Ok(v) = serde_json::from_str::<Value>(&text) else {
        eprintln!("not JSON: {}", path);
        return 2;
    };
    let prop = v["property"].as_str().unwrap_or("");
    let tier = v["tier"].as_str().unwrap_or("quick");
    let dom = v["domain"].as_str().unwrap_or("");
    let idx = v["index"].as_u64().unwrap_or(0);
    let exe = exe_path();
    let run = || {
        let mut cmd = Command::new(&exe);
        cmd.arg("case").arg(prop).arg(tier).arg(dom).arg(idx.to_string());
        if v["c01_mode"].as_bool().unwrap_or(false) {
            cmd.arg("--c01");
        }
        cmd.env("RUST_BACKTRACE", "0").stderr(Stdio::null());
        cmd.output().map(|o| (o.status.success(), format!("{}", o.status), String::from_utf8_lossy(&o.stdout).to_string()))
    };
    let (a, b) = (run(), run());
    let (Ok(a), Ok(b)) = (a, b) else {
        eprintln!("cannot run the case");
        return 2;
    };
    if a != b {
        eprintln!("replay is not deterministic: the harness does not own all nondeterminism\n first: {:?}\nsecond: {:?}", a, b);
        return 2;
    }
    if !a.0 {
        println!("case {} {}[{}] kills the process again: {}", prop, dom, idx, a.1);
        println!("VIOLATION property={} replay={}", prop, path);
        return 1;
    }
    let out: Value = serde_json::from_str(&a.2).unwrap_or(Value::Null);
    let n = out["violation_count"].as_u64().unwrap_or(0);
    println!("{}", serde_json::to_string_pretty(&out).unwrap_or_default());
    if n > 0 {
        println!("VIOLATION property={} replay={}", prop, path);
        1
    } else {
        println!("case {} {}[{}] no longer violates the property", prop, dom, idx);
        0
    }
}
