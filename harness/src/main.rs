//! lsmc — bounded exhaustive exploration of lucid-suggest-core (see /verif/DESIGN.md).

mod bfs;
mod doms;
mod engine;
mod frozen;
mod props;
mod refs;
mod unitable;
mod util;

use engine::*;

fn usage() -> ! {
    eprintln!("usage: lsmc run <Cxx> --tier quick|thorough | worker <Cxx> <tier> [--c01] [--pinpoint] [--trace] | case <Cxx> <tier> <dom> <idx> [--c01] | doms <Cxx> <tier> | replay <file>");
    std::process::exit(2)
}

fn main() {
    let args: Vec<String> = std::env::args().collect();
    if args.len() < 2 {
        usage();
    }
    match args[1].as_str() {
        "run" => {
            if args.len() < 3 {
                usage();
            }
            let id = args[2].clone();
            let mut tier = std::env::var("VERIF_TIER").ok().and_then(|t| Tier::parse(&t)).unwrap_or(Tier::Quick);
            let mut i = 3;
            while i < args.len() {
                if args[i] == "--tier" && i + 1 < args.len() {
                    tier = Tier::parse(&args[i + 1]).unwrap_or_else(|| usage());
                    i += 1;
                }
                i += 1;
            }
            let Some(prop) = props::make(&id, tier) else {
                eprintln!("unknown property {}", id);
                std::process::exit(2)
            };
            let jobs = std::env::var("LSMC_JOBS").ok().and_then(|s| s.parse().ok()).unwrap_or_else(|| std::thread::available_parallelism().map(|n| n.get()).unwrap_or(8));
            let seed = std::env::var("VERIF_SEED").ok().and_then(|s| s.parse().ok()).unwrap_or(0);
            let wall_cap_s = std::env::var("LSMC_WALL_CAP_S").ok().and_then(|s| s.parse().ok());
            let code = supervisor_main(prop.as_ref(), RunCfg { prop_id: id.clone(), tier, c01: id == "C01", jobs, seed, wall_cap_s });
            std::process::exit(code);
        }
        "worker" => {
            if args.len() < 4 {
                usage();
            }
            let tier = Tier::parse(&args[3]).unwrap_or_else(|| usage());
            let Some(prop) = props::make(&args[2], tier) else { std::process::exit(2) };
            let has = |f: &str| args.iter().any(|a| a == f);
            worker_main(prop.as_ref(), WorkerOpts { tier, c01: has("--c01"), pinpoint: has("--pinpoint"), trace: has("--trace") });
        }
        "case" => {
            if args.len() < 6 {
                usage();
            }
            let tier = Tier::parse(&args[3]).unwrap_or_else(|| usage());
            let Some(prop) = props::make(&args[2], tier) else { std::process::exit(2) };
            let idx: u64 = args[5].parse().unwrap_or_else(|_| usage());
            std::process::exit(case_main(prop.as_ref(), tier, args.iter().any(|a| a == "--c01"), &args[4], idx));
        }
        "doms" => {
            if args.len() < 4 {
                usage();
            }
            let tier = Tier::parse(&args[3]).unwrap_or_else(|| usage());
            let Some(prop) = props::make(&args[2], tier) else { std::process::exit(2) };
            for d in prop.doms() {
                println!("{}", d.name);
            }
        }
        "replay" => {
            if args.len() < 3 {
                usage();
            }
            std::process::exit(replay_main(&args[2]));
        }
        _ => usage(),
    }
}
