//! Explicit-state breadth-first search where a state is the operation history that reaches it
//! (DESIGN.md §3.3).  Every transition replays the whole history on a fresh real object.

use crate::engine::Cx;
use crate::util::{fnv, FNV0};
use std::collections::HashSet;
use std::time::{Duration, Instant};

pub trait Sys {
    type Op: Clone;
    /// Operations enabled after `hist` (a small finite menu, simplest first).
    fn enabled(&self, hist: &[Self::Op]) -> Vec<Self::Op>;
    /// Replay `hist` on fresh real objects, evaluate the oracle on the observation of its *last*
    /// operation (reporting through `cx`), and return the canonical bytes of the state reached.
    /// `None` cuts the branch (the state is undefined, e.g. after a panic).
    fn step(&self, hist: &[Self::Op], cx: &mut Cx) -> Option<Vec<u8>>;
}

pub fn key128(bytes: &[u8]) -> u128 {
    let mut a = FNV0;
    fnv(&mut a, bytes);
    let mut b: u64 = 0x9e3779b97f4a7c15;
    for (i, x) in bytes.iter().enumerate() {
        b = (b ^ (*x as u64).wrapping_add(i as u64)).wrapping_mul(0xff51afd7ed558ccd);
        b ^= b >> 33;
    }
    ((a as u128) << 64) | b as u128
}

pub struct BfsOut {
    pub seen: HashSet<u128>,
    /// unmerged mode with `must_be_in`: keys reached that the merged search never saw
    pub missing: u64,
    pub depth_completed: u32,
    pub states: u64,
    pub transitions: u64,
    pub capped: bool,
}

/// `starts`: non-initial starting histories (each is replayed like any other history).
/// `merge = false` explores every history (no state matching at all).
pub fn bfs<S: Sys>(
    sys: &S,
    cx: &mut Cx,
    tag: &str,
    starts: Vec<Vec<S::Op>>,
    depth: u32,
    merge: bool,
    wall_cap: Duration,
    must_be_in: Option<&HashSet<u128>>,
) -> BfsOut {
    let t0 = Instant::now();
    let mut seen: HashSet<u128> = HashSet::new();
    let mut frontier: Vec<Vec<S::Op>> = Vec::new();
    let mut out = BfsOut { seen: HashSet::new(), missing: 0, depth_completed: 0, states: 0, transitions: 0, capped: false };
    for s in starts {
        if let Some(k) = sys.step(&s, cx) {
            if let Some(m) = must_be_in {
                if !m.contains(&key128(&k)) {
                    out.missing += 1;
                }
            }
            if !merge || seen.insert(key128(&k)) {
                out.states += 1;
                cx.state();
                frontier.push(s);
            }
        }
    }
    let base = frontier.first().map(|h| h.len()).unwrap_or(0);
    'outer: for d in 1..=depth {
        let mut next: Vec<Vec<S::Op>> = Vec::new();
        let mut level_states = 0u64;
        let mut level_trans = 0u64;
        for hist in &frontier {
            for op in sys.enabled(hist) {
                if t0.elapsed() > wall_cap {
                    out.capped = true;
                    cx.extra("capped", 1);
                    break 'outer;
                }
                let mut h2 = Vec::with_capacity(hist.len() + 1);
                h2.extend(hist.iter().cloned());
                h2.push(op);
                level_trans += 1;
                cx.eval();
                if let Some(k) = sys.step(&h2, cx) {
                    if let Some(m) = must_be_in {
                        if !m.contains(&key128(&k)) {
                            out.missing += 1;
                        }
                    }
                    if !merge || seen.insert(key128(&k)) {
                        level_states += 1;
                        cx.state();
                        next.push(h2);
                    }
                }
            }
        }
        out.states += level_states;
        out.transitions += level_trans;
        out.depth_completed = d;
        cx.extra(&format!("{}depth{:02}_new_states", tag, d), level_states);
        cx.extra(&format!("{}depth{:02}_transitions", tag, d), level_trans);
        let _ = base;
        frontier = next;
        if frontier.is_empty() {
            break;
        }
    }
    cx.extra_max(&format!("max_{}depth_completed", tag), out.depth_completed as u64);
    out.seen = seen;
    out
}
