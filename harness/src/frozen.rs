//! Frozen copy (taken from the pinned tree by /verif tooling, not read at run time) of each language's
//! accent inventory and function-word list.  The checks use it as the *specification side*: a letter or
//! word silently dropped from a language table is then a visible behaviour change, not a silently
//! shrinking domain.

pub const FW_DE: &[&str] = &[
    "aber", // aber
    "als", // als
    "an", // an
    "anstatt", // anstatt
    "auch", // auch
    "auf", // auf
    "aus", // aus
    "bei", // bei
    "bevor", // bevor
    "bis", // bis
    "blo\u{df}", // bloß
    "but", // but
    "damit", // damit
    "das", // das
    "dass", // dass
    "dem", // dem
    "den", // den
    "denn", // denn
    "der", // der
    "des", // des
    "die", // die
    "doch", // doch
    "durch", // durch
    "eben", // eben
    "ein", // ein
    "eine", // eine
    "einem", // einem
    "einen", // einen
    "einer", // einer
    "eines", // eines
    "entlang", // entlang
    "entweder", // entweder
    "etwas", // etwas
    "f\u{fc}r", // für
    "gegen", // gegen
    "halt", // halt
    "hinter", // hinter
    "in", // in
    "ja", // ja
    "mal", // mal
    "mit", // mit
    "nach", // nach
    "nachdem", // nachdem
    "neben", // neben
    "noch", // noch
    "nur", // nur
    "ob", // ob
    "obwohl", // obwohl
    "oder", // oder
    "ohne", // ohne
    "ruhig", // ruhig
    "schon", // schon
    "seit", // seit
    "seitdem", // seitdem
    "shon", // shon
    "sobald", // sobald
    "sofern", // sofern
    "sondern", // sondern
    "soweiso", // soweiso
    "soweit", // soweit
    "sowie", // sowie
    "sowohl", // sowohl
    "the", // the
    "um", // um
    "und", // und
    "von", // von
    "weder", // weder
    "weil", // weil
    "wenn", // wenn
    "wie", // wie
    "wo", // wo
    "wohl", // wohl
    "w\u{e4}hrend", // während
    "zu", // zu
    "zwar", // zwar
];
pub const COMPOSE_DE: &[(&str, &str)] = &[
    ("A\u{308}", "\u{c4}"), // Ä
    ("O\u{308}", "\u{d6}"), // Ö
    ("U\u{308}", "\u{dc}"), // Ü
    ("a\u{308}", "\u{e4}"), // ä
    ("o\u{308}", "\u{f6}"), // ö
    ("u\u{308}", "\u{fc}"), // ü
];
pub const REDUCE_DE: &[(&str, &str)] = &[
    ("\u{1e9e}", "SS"), // ẞ -> SS
    ("\u{df}", "ss"), // ß -> ss
    ("\u{c4}", "A"), // Ä -> A
    ("\u{d6}", "O"), // Ö -> O
    ("\u{dc}", "U"), // Ü -> U
    ("\u{e4}", "a"), // ä -> a
    ("\u{f6}", "o"), // ö -> o
    ("\u{fc}", "u"), // ü -> u
];

pub const FW_EN: &[&str] = &[
    "a", // a
    "about", // about
    "above", // above
    "across", // across
    "after", // after
    "although", // although
    "an", // an
    "and", // and
    "as", // as
    "at", // at
    "because", // because
    "before", // before
    "below", // below
    "beside", // beside
    "but", // but
    "by", // by
    "either", // either
    "for", // for
    "from", // from
    "how", // how
    "if", // if
    "in", // in
    "into", // into
    "lest", // lest
    "nor", // nor
    "not", // not
    "of", // of
    "off", // off
    "oh", // oh
    "on", // on
    "once", // once
    "onto", // onto
    "or", // or
    "out", // out
    "over", // over
    "since", // since
    "so", // so
    "than", // than
    "that", // that
    "the", // the
    "though", // though
    "through", // through
    "till", // till
    "to", // to
    "towards", // towards
    "under", // under
    "unless", // unless
    "until", // until
    "untill", // untill
    "what", // what
    "whatever", // whatever
    "when", // when
    "whenever", // whenever
    "where", // where
    "whereas", // whereas
    "wherever", // wherever
    "whether", // whether
    "which", // which
    "whichever", // whichever
    "while", // while
    "whilst", // whilst
    "who", // who
    "whoever", // whoever
    "whom", // whom
    "whomever", // whomever
    "whose", // whose
    "why", // why
    "yet", // yet
];
pub const COMPOSE_EN: &[(&str, &str)] = &[
];
pub const REDUCE_EN: &[(&str, &str)] = &[
];

pub const FW_ES: &[&str] = &[
    "a", // a
    "abajo", // abajo
    "alrededor", // alrededor
    "antes", // antes
    "aquellos", // aquellos
    "arriba", // arriba
    "aunque", // aunque
    "bajo", // bajo
    "como", // como
    "con", // con
    "contra", // contra
    "de", // de
    "dentro", // dentro
    "desde", // desde
    "durante", // durante
    "e", // e
    "el", // el
    "en", // en
    "encima", // encima
    "entonces", // entonces
    "entre", // entre
    "esta", // esta
    "esto", // esto
    "estos", // estos
    "excepto", // excepto
    "fuera", // fuera
    "hacia", // hacia
    "hasta", // hasta
    "la", // la
    "las", // las
    "los", // los
    "mas", // mas
    "m\u{e1}s", // más
    "o", // o
    "opuesto", // opuesto
    "para", // para
    "pero", // pero
    "por", // por
    "porque", // porque
    "pr\u{f3}ximo", // próximo
    "pues", // pues
    "que", // que
    "salvo", // salvo
    "si", // si
    "sin", // sin
    "sino", // sino
    "sobre", // sobre
    "u", // u
    "un", // un
    "una", // una
    "unas", // unas
    "unos", // unos
    "v\u{ed}a", // vía
    "y", // y
];
pub const COMPOSE_ES: &[(&str, &str)] = &[
    ("A\u{301}", "\u{c1}"), // Á
    ("E\u{301}", "\u{c9}"), // É
    ("I\u{301}", "\u{cd}"), // Í
    ("O\u{301}", "\u{d3}"), // Ó
    ("U\u{301}", "\u{da}"), // Ú
    ("a\u{301}", "\u{e1}"), // á
    ("e\u{301}", "\u{e9}"), // é
    ("i\u{301}", "\u{ed}"), // í
    ("o\u{301}", "\u{f3}"), // ó
    ("u\u{301}", "\u{fa}"), // ú
    ("N\u{303}", "\u{d1}"), // Ñ
    ("n\u{303}", "\u{f1}"), // ñ
    ("U\u{308}", "\u{dc}"), // Ü
    ("u\u{308}", "\u{fc}"), // ü
];
pub const REDUCE_ES: &[(&str, &str)] = &[
    ("\u{c1}", "A"), // Á -> A
    ("\u{c9}", "E"), // É -> E
    ("\u{cd}", "I"), // Í -> I
    ("\u{d3}", "O"), // Ó -> O
    ("\u{da}", "U"), // Ú -> U
    ("\u{e1}", "a"), // á -> a
    ("\u{e9}", "e"), // é -> e
    ("\u{ed}", "i"), // í -> i
    ("\u{f3}", "o"), // ó -> o
    ("\u{fa}", "u"), // ú -> u
    ("\u{d1}", "N"), // Ñ -> N
    ("\u{f1}", "n"), // ñ -> n
    ("\u{dc}", "U"), // Ü -> U
    ("\u{fc}", "u"), // ü -> u
];

pub const FW_FR: &[&str] = &[
    "apr\u{e8}s", // après
    "au-del\u{e0}", // au-delà
    "au-dessus", // au-dessus
    "avant", // avant
    "avec", // avec
    "car", // car
    "ces", // ces
    "cette", // cette
    "ceux", // ceux
    "comme", // comme
    "contre", // contre
    "dans", // dans
    "de", // de
    "depuis", // depuis
    "derri\u{e8}re", // derrière
    "des", // des
    "donc", // donc
    "du", // du
    "ensuite", // ensuite
    "entre", // entre
    "et", // et
    "jusqu'\u{e0}", // jusqu'à
    "l", // l
    "la", // la
    "le", // le
    "les", // les
    "lorsque", // lorsque
    "mais", // mais
    "malgr\u{e9}", // malgré
    "ne", // ne
    "ni", // ni
    "oppos\u{e9}", // opposé
    "or", // or
    "ou", // ou
    "par", // par
    "plus", // plus
    "pour", // pour
    "pourquoi", // pourquoi
    "prochain", // prochain
    "puis", // puis
    "puisque", // puisque
    "quand", // quand
    "que", // que
    "qui", // qui
    "quoique", // quoique
    "sans", // sans
    "sauf", // sauf
    "selon", // selon
    "si", // si
    "sous", // sous
    "sur", // sur
    "tour", // tour
    "un", // un
    "une", // une
    "vers", // vers
    "via", // via
    "\u{e0}", // à
    "\u{f4}", // ô
];
pub const COMPOSE_FR: &[(&str, &str)] = &[
    ("E\u{301}", "\u{c9}"), // É
    ("e\u{301}", "\u{e9}"), // é
    ("A\u{300}", "\u{c0}"), // À
    ("E\u{300}", "\u{c8}"), // È
    ("U\u{300}", "\u{d9}"), // Ù
    ("a\u{300}", "\u{e0}"), // à
    ("e\u{300}", "\u{e8}"), // è
    ("u\u{300}", "\u{f9}"), // ù
    ("A\u{302}", "\u{c2}"), // Â
    ("E\u{302}", "\u{ca}"), // Ê
    ("I\u{302}", "\u{ce}"), // Î
    ("O\u{302}", "\u{d4}"), // Ô
    ("U\u{302}", "\u{db}"), // Û
    ("a\u{302}", "\u{e2}"), // â
    ("e\u{302}", "\u{ea}"), // ê
    ("i\u{302}", "\u{ee}"), // î
    ("o\u{302}", "\u{f4}"), // ô
    ("u\u{302}", "\u{fb}"), // û
    ("E\u{308}", "\u{cb}"), // Ë
    ("I\u{308}", "\u{cf}"), // Ï
    ("U\u{308}", "\u{dc}"), // Ü
    ("Y\u{308}", "\u{178}"), // Ÿ
    ("e\u{308}", "\u{eb}"), // ë
    ("i\u{308}", "\u{ef}"), // ï
    ("u\u{308}", "\u{fc}"), // ü
    ("y\u{308}", "\u{ff}"), // ÿ
    ("C\u{327}", "\u{c7}"), // Ç
    ("c\u{327}", "\u{e7}"), // ç
    ("N\u{303}", "\u{d1}"), // Ñ
    ("n\u{303}", "\u{f1}"), // ñ
];
pub const REDUCE_FR: &[(&str, &str)] = &[
    ("\u{c9}", "E"), // É -> E
    ("\u{e9}", "e"), // é -> e
    ("\u{c0}", "A"), // À -> A
    ("\u{c8}", "E"), // È -> E
    ("\u{d9}", "U"), // Ù -> U
    ("\u{e0}", "a"), // à -> a
    ("\u{e8}", "e"), // è -> e
    ("\u{f9}", "u"), // ù -> u
    ("\u{c2}", "A"), // Â -> A
    ("\u{ca}", "E"), // Ê -> E
    ("\u{ce}", "I"), // Î -> I
    ("\u{d4}", "O"), // Ô -> O
    ("\u{db}", "U"), // Û -> U
    ("\u{e2}", "a"), // â -> a
    ("\u{ea}", "e"), // ê -> e
    ("\u{ee}", "i"), // î -> i
    ("\u{f4}", "o"), // ô -> o
    ("\u{fb}", "u"), // û -> u
    ("\u{cb}", "E"), // Ë -> E
    ("\u{cf}", "I"), // Ï -> I
    ("\u{dc}", "U"), // Ü -> U
    ("\u{178}", "Y"), // Ÿ -> Y
    ("\u{eb}", "e"), // ë -> e
    ("\u{ef}", "i"), // ï -> i
    ("\u{fc}", "u"), // ü -> u
    ("\u{ff}", "y"), // ÿ -> y
    ("\u{c7}", "C"), // Ç -> C
    ("\u{e7}", "c"), // ç -> c
    ("\u{d1}", "N"), // Ñ -> N
    ("\u{f1}", "n"), // ñ -> n
    ("\u{c6}", "AE"), // Æ -> AE
    ("\u{e6}", "ae"), // æ -> ae
    ("\u{152}", "OE"), // Œ -> OE
    ("\u{153}", "oe"), // œ -> oe
    ("\u{d8}", "OE"), // Ø -> OE
    ("\u{f8}", "oe"), // ø -> oe
];

pub const FW_PT: &[&str] = &[
    "a", // a
    "abaixo", // abaixo
    "acima", // acima
    "agora", // agora
    "al\u{e9}m", // além
    "antes", // antes
    "aproximadamente", // aproximadamente
    "aquela", // aquela
    "aquele", // aquele
    "aqueles", // aqueles
    "as", // as
    "atr\u{e1}s", // atrás
    "at\u{e9}", // até
    "com", // com
    "como", // como
    "conforme", // conforme
    "contra", // contra
    "contudo", // contudo
    "de", // de
    "depois", // depois
    "desde", // desde
    "distante", // distante
    "durante", // durante
    "e", // e
    "em", // em
    "enquanto", // enquanto
    "entre", // entre
    "ent\u{e3}o", // então
    "esta", // esta
    "estas", // estas
    "este", // este
    "estes", // estes
    "exceto", // exceto
    "fora", // fora
    "logo", // logo
    "mais", // mais
    "mas", // mas
    "nem", // nem
    "o", // o
    "oposto", // oposto
    "os", // os
    "ou", // ou
    "para", // para
    "perto", // perto
    "pois", // pois
    "por", // por
    "porque", // porque
    "portanto", // portanto
    "por\u{e9}m", // porém
    "pr\u{f3}ximo", // próximo
    "quando", // quando
    "que", // que
    "se", // se
    "sem", // sem
    "sob", // sob
    "sobre", // sobre
    "todavia", // todavia
    "um", // um
    "uma", // uma
    "umas", // umas
    "uns", // uns
    "via", // via
];
pub const COMPOSE_PT: &[(&str, &str)] = &[
    ("C\u{327}", "\u{c7}"), // Ç
    ("c\u{327}", "\u{e7}"), // ç
    ("A\u{301}", "\u{c1}"), // Á
    ("E\u{301}", "\u{c9}"), // É
    ("I\u{301}", "\u{cd}"), // Í
    ("O\u{301}", "\u{d3}"), // Ó
    ("U\u{301}", "\u{da}"), // Ú
    ("a\u{301}", "\u{e1}"), // á
    ("e\u{301}", "\u{e9}"), // é
    ("i\u{301}", "\u{ed}"), // í
    ("o\u{301}", "\u{f3}"), // ó
    ("u\u{301}", "\u{fa}"), // ú
    ("A\u{302}", "\u{c2}"), // Â
    ("E\u{302}", "\u{ca}"), // Ê
    ("O\u{302}", "\u{d4}"), // Ô
    ("a\u{302}", "\u{e2}"), // â
    ("e\u{302}", "\u{ea}"), // ê
    ("o\u{302}", "\u{f4}"), // ô
    ("A\u{303}", "\u{c3}"), // Ã
    ("O\u{303}", "\u{d5}"), // Õ
    ("a\u{303}", "\u{e3}"), // ã
    ("o\u{303}", "\u{f5}"), // õ
    ("A\u{300}", "\u{c0}"), // À
    ("E\u{300}", "\u{c8}"), // È
    ("I\u{300}", "\u{cc}"), // Ì
    ("O\u{300}", "\u{d2}"), // Ò
    ("U\u{300}", "\u{d9}"), // Ù
    ("a\u{300}", "\u{e0}"), // à
    ("e\u{300}", "\u{e8}"), // è
    ("i\u{300}", "\u{ec}"), // ì
    ("o\u{300}", "\u{f2}"), // ò
    ("u\u{300}", "\u{f9}"), // ù
];
pub const REDUCE_PT: &[(&str, &str)] = &[
    ("\u{c7}", "C"), // Ç -> C
    ("\u{e7}", "c"), // ç -> c
    ("\u{c1}", "A"), // Á -> A
    ("\u{c9}", "E"), // É -> E
    ("\u{cd}", "I"), // Í -> I
    ("\u{d3}", "O"), // Ó -> O
    ("\u{da}", "U"), // Ú -> U
    ("\u{e1}", "a"), // á -> a
    ("\u{e9}", "e"), // é -> e
    ("\u{ed}", "i"), // í -> i
    ("\u{f3}", "o"), // ó -> o
    ("\u{fa}", "u"), // ú -> u
    ("\u{c2}", "A"), // Â -> A
    ("\u{ca}", "E"), // Ê -> E
    ("\u{d4}", "O"), // Ô -> O
    ("\u{e2}", "a"), // â -> a
    ("\u{ea}", "e"), // ê -> e
    ("\u{f4}", "o"), // ô -> o
    ("\u{c3}", "A"), // Ã -> A
    ("\u{d5}", "O"), // Õ -> O
    ("\u{e3}", "a"), // ã -> a
    ("\u{f5}", "o"), // õ -> o
    ("\u{c0}", "A"), // À -> A
    ("\u{c8}", "E"), // È -> E
    ("\u{cc}", "I"), // Ì -> I
    ("\u{d2}", "O"), // Ò -> O
    ("\u{d9}", "U"), // Ù -> U
    ("\u{e0}", "a"), // à -> a
    ("\u{e8}", "e"), // è -> e
    ("\u{ec}", "i"), // ì -> i
    ("\u{f2}", "o"), // ò -> o
    ("\u{f9}", "u"), // ù -> u
];

pub const FW_RU: &[&str] = &[
    "c", // c
    "\u{430}", // а
    "\u{431}\u{435}\u{437}", // без
    "\u{431}\u{43b}\u{430}\u{433}\u{43e}\u{434}\u{430}\u{440}\u{44f}", // благодаря
    "\u{431}\u{443}\u{434}\u{442}\u{43e}", // будто
    "\u{431}\u{44b}", // бы
    "\u{432}", // в
    "\u{432}\u{432}\u{438}\u{434}\u{443}", // ввиду
    "\u{432}\u{434}\u{43e}\u{43b}\u{44c}", // вдоль
    "\u{432}\u{435}\u{434}\u{44c}", // ведь
    "\u{432}\u{43c}\u{435}\u{441}\u{442}\u{43e}", // вместо
    "\u{432}\u{43d}\u{435}", // вне
    "\u{432}\u{43d}\u{443}\u{442}\u{440}\u{438}", // внутри
    "\u{432}\u{43d}\u{443}\u{442}\u{440}\u{44c}", // внутрь
    "\u{432}\u{43e}", // во
    "\u{432}\u{43e}\u{437}\u{43b}\u{435}", // возле
    "\u{432}\u{43e}\u{43a}\u{440}\u{443}\u{433}", // вокруг
    "\u{432}\u{43e}\u{43d}", // вон
    "\u{432}\u{43e}\u{43f}\u{440}\u{435}\u{43a}\u{438}", // вопреки
    "\u{432}\u{43e}\u{442}", // вот
    "\u{432}\u{43f}\u{435}\u{440}\u{435}\u{434}\u{438}", // впереди
    "\u{432}\u{43f}\u{440}\u{43e}\u{447}\u{435}\u{43c}", // впрочем
    "\u{432}\u{441}\u{43b}\u{435}\u{434}\u{441}\u{442}\u{432}\u{438}\u{435}", // вследствие
    "\u{433}\u{434}\u{435}", // где
    "\u{434}\u{430}", // да
    "\u{434}\u{430}\u{436}\u{435}", // даже
    "\u{434}\u{43b}\u{44f}", // для
    "\u{434}\u{43e}", // до
    "\u{435}\u{434}\u{432}\u{430}", // едва
    "\u{435}\u{436}\u{435}\u{43b}\u{438}", // ежели
    "\u{435}\u{441}\u{43b}\u{438}", // если
    "\u{435}\u{441}\u{442}\u{44c}", // есть
    "\u{436}\u{435}", // же
    "\u{437}\u{430}", // за
    "\u{437}\u{430}\u{442}\u{43e}", // зато
    "\u{437}\u{434}\u{435}\u{441}\u{44c}", // здесь
    "\u{438}", // и
    "\u{438}\u{431}\u{43e}", // ибо
    "\u{438}\u{437}", // из
    "\u{438}\u{437}-\u{437}\u{430}", // из-за
    "\u{438}\u{437}-\u{43f}\u{43e}\u{434}", // из-под
    "\u{438}\u{43b}\u{438}", // или
    "\u{438}\u{43c}\u{435}\u{43d}\u{43d}\u{43e}", // именно
    "\u{43a}", // к
    "\u{43a}\u{430}\u{43a}", // как
    "\u{43a}\u{43e}", // ко
    "\u{43a}\u{43e}\u{433}\u{434}\u{430}", // когда
    "\u{43a}\u{43e}\u{442}\u{43e}\u{440}\u{430}\u{44f}", // которая
    "\u{43a}\u{43e}\u{442}\u{43e}\u{440}\u{43e}\u{433}\u{43e}", // которого
    "\u{43a}\u{43e}\u{442}\u{43e}\u{440}\u{43e}\u{435}", // которое
    "\u{43a}\u{43e}\u{442}\u{43e}\u{440}\u{43e}\u{43c}", // котором
    "\u{43a}\u{43e}\u{442}\u{43e}\u{440}\u{443}\u{44e}", // которую
    "\u{43a}\u{43e}\u{442}\u{43e}\u{440}\u{44b}\u{435}", // которые
    "\u{43a}\u{43e}\u{442}\u{43e}\u{440}\u{44b}\u{439}", // который
    "\u{43a}\u{43e}\u{442}\u{43e}\u{440}\u{44b}\u{445}", // которых
    "\u{43a}\u{440}\u{43e}\u{43c}\u{435}", // кроме
    "\u{43b}\u{438}", // ли
    "\u{43b}\u{438}\u{431}\u{43e}", // либо
    "\u{43b}\u{438}\u{448}\u{44c}", // лишь
    "\u{43c}\u{435}\u{436}\u{434}\u{443}", // между
    "\u{43c}\u{438}\u{43c}\u{43e}", // мимо
    "\u{43d}\u{430}", // на
    "\u{43d}\u{430}\u{434}", // над
    "\u{43d}\u{430}\u{434}\u{43e}", // надо
    "\u{43d}\u{430}\u{43f}\u{440}\u{43e}\u{442}\u{438}\u{432}", // напротив
    "\u{43d}\u{430}\u{441}\u{442}\u{43e}\u{43b}\u{44c}\u{43a}\u{43e}", // настолько
    "\u{43d}\u{430}\u{441}\u{447}\u{435}\u{442}", // насчет
    "\u{43d}\u{435}", // не
    "\u{43d}\u{435}\u{442}", // нет
    "\u{43d}\u{435}\u{443}\u{436}\u{435}\u{43b}\u{438}", // неужели
    "\u{43d}\u{438}", // ни
    "\u{43d}\u{43e}", // но
    "\u{43d}\u{443}", // ну
    "\u{43e}", // о
    "\u{43e}\u{431}", // об
    "\u{43e}\u{434}\u{43d}\u{430}\u{43a}\u{43e}", // однако
    "\u{43e}\u{43a}\u{43e}\u{43b}\u{43e}", // около
    "\u{43e}\u{442}", // от
    "\u{43e}\u{442}\u{43e}", // ото
    "\u{43f}\u{435}\u{440}\u{435}\u{434}", // перед
    "\u{43f}\u{435}\u{440}\u{435}\u{434}\u{43e}", // передо
    "\u{43f}\u{43e}", // по
    "\u{43f}\u{43e}\u{434}", // под
    "\u{43f}\u{43e}\u{434}\u{43b}\u{435}", // подле
    "\u{43f}\u{43e}\u{434}\u{43e}", // подо
    "\u{43f}\u{43e}\u{436}\u{430}\u{43b}\u{443}\u{439}", // пожалуй
    "\u{43f}\u{43e}\u{437}\u{430}\u{434}\u{438}", // позади
    "\u{43f}\u{43e}\u{43a}\u{430}", // пока
    "\u{43f}\u{43e}\u{43a}\u{430}\u{43c}\u{435}\u{441}\u{442}", // покамест
    "\u{43f}\u{43e}\u{43a}\u{443}\u{434}\u{430}", // покуда
    "\u{43f}\u{43e}\u{43c}\u{438}\u{43c}\u{43e}", // помимо
    "\u{43f}\u{43e}\u{441}\u{43b}\u{435}", // после
    "\u{43f}\u{43e}\u{441}\u{440}\u{435}\u{434}\u{438}", // посреди
    "\u{43f}\u{43e}\u{441}\u{440}\u{435}\u{434}\u{441}\u{442}\u{432}\u{43e}\u{43c}", // посредством
    "\u{43f}\u{43e}\u{447}\u{442}\u{438}", // почти
    "\u{43f}\u{440}\u{438}", // при
    "\u{43f}\u{440}\u{43e}", // про
    "\u{43f}\u{440}\u{43e}\u{441}\u{442}\u{43e}", // просто
    "\u{43f}\u{440}\u{43e}\u{442}\u{438}\u{432}", // против
    "\u{43f}\u{443}\u{441}\u{43a}\u{430}\u{439}", // пускай
    "\u{43f}\u{443}\u{441}\u{442}\u{44c}", // пусть
    "\u{43f}\u{443}\u{442}\u{451}\u{43c}", // путём
    "\u{440}\u{430}\u{434}\u{438}", // ради
    "\u{440}\u{430}\u{437}", // раз
    "\u{440}\u{430}\u{437}\u{432}\u{435}", // разве
    "\u{441}", // с
    "\u{441}\u{432}\u{435}\u{440}\u{445}", // сверх
    "\u{441}\u{432}\u{44b}\u{448}\u{435}", // свыше
    "\u{441}\u{43a}\u{432}\u{43e}\u{437}\u{44c}", // сквозь
    "\u{441}\u{43b}\u{43e}\u{432}\u{43d}\u{43e}", // словно
    "\u{441}\u{43e}", // со
    "\u{441}\u{440}\u{435}\u{434}\u{438}", // среди
    "\u{442}\u{430}\u{43a}\u{436}\u{435}", // также
    "\u{442}\u{430}\u{43c}", // там
    "\u{442}\u{43e}", // то
    "\u{442}\u{43e}\u{436}\u{435}", // тоже
    "\u{442}\u{43e}\u{43b}\u{44c}\u{43a}\u{43e}", // только
    "\u{442}\u{43e}\u{447}\u{43d}\u{43e}", // точно
    "\u{443}", // у
    "\u{443}\u{433}\u{43e}\u{434}\u{43d}\u{43e}", // угодно
    "\u{443}\u{436}", // уж
    "\u{445}\u{43e}\u{442}\u{44c}", // хоть
    "\u{445}\u{43e}\u{442}\u{44f}", // хотя
    "\u{447}\u{435}\u{43c}", // чем
    "\u{447}\u{435}\u{440}\u{435}\u{437}", // через
    "\u{447}\u{442}\u{43e}", // что
    "\u{447}\u{442}\u{43e}\u{431}\u{44b}", // чтобы
    "\u{447}\u{443}\u{442}\u{44c}", // чуть
    "\u{44d}\u{442}\u{43e}", // это
];
pub const COMPOSE_RU: &[(&str, &str)] = &[
    ("\u{415}\u{308}", "\u{401}"), // Ё
    ("\u{435}\u{308}", "\u{451}"), // ё
];
pub const REDUCE_RU: &[(&str, &str)] = &[
    ("\u{401}", "\u{415}"), // Ё -> Е
    ("\u{451}", "\u{435}"), // ё -> е
];

