//! Reference models and oracles' helpers, written from the specification side (DESIGN.md §3.5).
//! Nothing in here calls into the matching / scoring / indexing code of the subject; only the public
//! tokeniser output (`TextOwn`) is consumed where the properties say so.

use crate::frozen;
use crate::unitable::UNICODE_PAIRS;
use crate::util::*;
use lucid_suggest_core::{Lang, TextOwn};
use std::collections::BTreeSet;

// ---------------------------------------------------------------------------------------------
// grams
// ---------------------------------------------------------------------------------------------

pub type Gram = [char; 3];

/// Grams of one word: its 1- and 2-letter starts and every window of 3.
pub fn word_grams(w: &[char], out: &mut BTreeSet<Gram>) {
    if w.is_empty() {
        return;
    }
    out.insert([w[0], '\0', '\0']);
    if w.len() >= 2 {
        out.insert([w[0], w[1], '\0']);
    }
    for i in 0..w.len().saturating_sub(2) {
        out.insert([w[i], w[i + 1], w[i + 2]]);
    }
}

pub fn text_words(t: &TextOwn) -> Vec<Vec<char>> {
    t.words.iter().map(|w| t.chars[w.slice.0..w.slice.1].to_vec()).collect()
}

pub fn text_grams(t: &TextOwn) -> BTreeSet<Gram> {
    let mut s = BTreeSet::new();
    for w in text_words(t) {
        word_grams(&w, &mut s);
    }
    s
}

// ---------------------------------------------------------------------------------------------
// distances
// ---------------------------------------------------------------------------------------------

pub fn ref_lev(a: &[char], b: &[char]) -> usize {
    let mut prev: Vec<usize> = (0..=b.len()).collect();
    for i in 1..=a.len() {
        let mut cur = vec![i; b.len() + 1];
        for j in 1..=b.len() {
            let sub = prev[j - 1] + if a[i - 1] == b[j - 1] { 0 } else { 1 };
            cur[j] = sub.min(prev[j] + 1).min(cur[j - 1] + 1);
        }
        prev = cur;
    }
    prev[b.len()]
}

/// Unrestricted Damerau–Levenshtein (Lowrance–Wagner), unit costs.
pub fn ref_dl(a: &[char], b: &[char]) -> usize {
    use std::collections::HashMap;
    let (n, m) = (a.len(), b.len());
    let inf = n + m;
    let mut d = vec![vec![0usize; m + 2]; n + 2];
    d[0][0] = inf;
    for i in 0..=n {
        d[i + 1][0] = inf;
        d[i + 1][1] = i;
    }
    for j in 0..=m {
        d[0][j + 1] = inf;
        d[1][j + 1] = j;
    }
    let mut da: HashMap<char, usize> = HashMap::new();
    for i in 1..=n {
        let mut db = 0;
        for j in 1..=m {
            let i1 = *da.get(&b[j - 1]).unwrap_or(&0);
            let j1 = db;
            let cost = if a[i - 1] == b[j - 1] {
                db = j;
                0
            } else {
                1
            };
            d[i + 1][j + 1] = (d[i][j] + cost)
                .min(d[i + 1][j] + 1)
                .min(d[i][j + 1] + 1)
                .min(d[i1][j1] + (i - i1 - 1) + 1 + (j - j1 - 1));
        }
        da.insert(a[i - 1], i);
    }
    d[n + 1][m + 1]
}

pub fn ref_jaccard<T: Ord + Copy>(a: &[T], b: &[T]) -> f64 {
    let sa: BTreeSet<T> = a.iter().copied().collect();
    let sb: BTreeSet<T> = b.iter().copied().collect();
    if sa.is_empty() && sb.is_empty() {
        return 1.0;
    }
    let inter = sa.intersection(&sb).count();
    let union = sa.union(&sb).count();
    inter as f64 / union as f64
}

// ---------------------------------------------------------------------------------------------
// characters
// ---------------------------------------------------------------------------------------------

pub const SPEC_PUNCTUATION: &[char] =
    &['&', '(', ')', ',', ':', ';', '.', '!', '?', '-', '\u{2011}', '\u{2012}', '\u{2013}', '\u{2014}', '\u{2026}', '\u{203c}', '\u{2047}', '\u{2048}', '\u{2049}'];

pub fn is_separator(c: char) -> bool {
    c.is_whitespace() || c.is_control() || SPEC_PUNCTUATION.contains(&c)
}

// ---------------------------------------------------------------------------------------------
// composition
// ---------------------------------------------------------------------------------------------

pub fn frozen_compose(l: L) -> &'static [(&'static str, &'static str)] {
    match l {
        L::De => frozen::COMPOSE_DE,
        L::En => frozen::COMPOSE_EN,
        L::Es => frozen::COMPOSE_ES,
        L::Fr => frozen::COMPOSE_FR,
        L::Pt => frozen::COMPOSE_PT,
        L::Ru => frozen::COMPOSE_RU,
        _ => &[],
    }
}
pub fn frozen_reduce(l: L) -> &'static [(&'static str, &'static str)] {
    match l {
        L::De => frozen::REDUCE_DE,
        L::En => frozen::REDUCE_EN,
        L::Es => frozen::REDUCE_ES,
        L::Fr => frozen::REDUCE_FR,
        L::Pt => frozen::REDUCE_PT,
        L::Ru => frozen::REDUCE_RU,
        _ => &[],
    }
}
pub fn frozen_function_words(l: L) -> &'static [&'static str] {
    match l {
        L::De => frozen::FW_DE,
        L::En => frozen::FW_EN,
        L::Es => frozen::FW_ES,
        L::Fr => frozen::FW_FR,
        L::Pt => frozen::FW_PT,
        L::Ru => frozen::FW_RU,
        _ => &[],
    }
}

/// (base, mark) pairs of the Unicode table that this language object composes into *one* character,
/// discovered through the public `Lang::unicode_compose`.  What they compose *to* is taken from the
/// table, not from the language.
pub fn compose_inventory(lang: &Lang) -> Vec<(char, char, char)> {
    let mut out = Vec::new();
    for &(b, m, p) in UNICODE_PAIRS {
        if let Some(r) = lang.unicode_compose(&[b, m]) {
            if r.len() == 1 {
                out.push((b, m, p));
            }
        }
    }
    out
}

/// The language's composition inventory from the specification side: the frozen copy of its compose
/// table, each value cross-checked against the harness's Unicode table (a pair whose frozen value is not
/// the canonical composition would be a harness bug and panics here).
pub fn frozen_inventory(l: L) -> Vec<(char, char, char)> {
    frozen_compose(l)
        .iter()
        .map(|(from, to)| {
            let f: Vec<char> = from.chars().collect();
            let t: Vec<char> = to.chars().collect();
            assert!(f.len() == 2 && t.len() == 1, "frozen compose row {:?}", from);
            assert!(UNICODE_PAIRS.iter().any(|&(b, m, p)| b == f[0] && m == f[1] && p == t[0]), "frozen compose row {:?} is not canonical", from);
            (f[0], f[1], t[0])
        })
        .collect()
}

/// Greedy left-to-right composition of the pairs in `inv`.
pub fn ref_compose(inv: &[(char, char, char)], input: &[char]) -> Vec<char> {
    let mut out = Vec::with_capacity(input.len());
    let mut i = 0;
    while i < input.len() {
        if i + 1 < input.len() {
            if let Some(&(_, _, p)) = inv.iter().find(|&&(b, m, _)| b == input[i] && m == input[i + 1]) {
                out.push(p);
                i += 2;
                continue;
            }
        }
        out.push(input[i]);
        i += 1;
    }
    out
}

pub fn decompose_char(c: char) -> Option<(char, char)> {
    UNICODE_PAIRS.iter().find(|&&(_, _, p)| p == c).map(|&(b, m, _)| (b, m))
}

// ---------------------------------------------------------------------------------------------
// highlight spans
// ---------------------------------------------------------------------------------------------

pub const SENT_L: char = '\u{e000}';
pub const SENT_R: char = '\u{e001}';
pub const SENT_LS: &str = "\u{e000}";
pub const SENT_RS: &str = "\u{e001}";

#[derive(Debug, Clone, PartialEq)]
pub struct Parsed {
    /// title with sentinels removed
    pub plain: Vec<char>,
    /// spans as (start, end) positions in `plain`
    pub spans: Vec<(usize, usize)>,
}

/// Parse a title highlighted with the sentinel markers.  `Err` describes malformed markup.
pub fn parse_spans(title: &str) -> Result<Parsed, String> {
    let mut plain = Vec::new();
    let mut spans = Vec::new();
    let mut open: Option<usize> = None;
    for c in title.chars() {
        if c == SENT_L {
            if open.is_some() {
                return Err("nested or repeated opening marker".into());
            }
            open = Some(plain.len());
        } else if c == SENT_R {
            match open.take() {
                Some(s) => spans.push((s, plain.len())),
                None => return Err("closing marker without opening marker".into()),
            }
        } else {
            plain.push(c);
        }
    }
    if open.is_some() {
        return Err("unclosed opening marker".into());
    }
    Ok(Parsed { plain, spans })
}

/// Map positions of `source` (NUL padded) to positions of the NUL-free string: pos_map[i] = number of
/// non-NUL characters before i.
pub fn unpadded_positions(source: &[char]) -> Vec<usize> {
    let mut out = Vec::with_capacity(source.len() + 1);
    let mut n = 0;
    for &c in source {
        out.push(n);
        if c != '\0' {
            n += 1;
        }
    }
    out.push(n);
    out
}

pub fn strip_nul(s: &[char]) -> Vec<char> {
    s.iter().copied().filter(|c| *c != '\0').collect()
}
